---------------------------- MODULE SearchAlgo ----------------------------
(***************************************************************************)
(* The three two-pointer scans of sorted_array_utils.py, transcribed       *)
(* statement by statement (one label per loop head), and checked against   *)
(* the definition in Search.tla on every input of the bounded instance.    *)
(* "None" (iterator exhausted) is modelled by the index running past the   *)
(* end of the sequence.                                                    *)
(***************************************************************************)
EXTENDS Search, TLC

CONSTANTS Arrays, Queries       \* sets of sequences of rationals

(* --algorithm scans
variables x \in Arrays, q \in Queries, kind \in {"lower", "higher", "closest"}, fill \in BOOLEAN,
          xi = 1,               \* position of x_val (1-based); x_idx = xi - 1
          xn = 2,               \* position of x_next_val; > Len(x) means None
          li = 1,               \* position of lookup_val; > Len(q) means None
          idx = [k \in 1..Len(q) |-> 0],
          xval = x[1];          \* only the 'closest' scan advances x_val
begin
Pre:
  while li <= Len(q) /\ ((kind = "lower" /\ RLt(q[li], xval)) \/ (kind # "lower" /\ RLe(q[li], xval))) do
    idx[li] := IF kind = "lower" /\ ~fill THEN -1 ELSE 0;
    li := li + 1;
  end while;
Main:
  while li <= Len(q) do
    Adv:
    while xn <= Len(x) /\ ((kind = "lower" /\ RLe(x[xn], q[li])) \/ (kind # "lower" /\ RLt(x[xn], q[li]))) do
      if kind = "closest" then xval := x[xn]; end if;
      xn := xn + 1;
      xi := xi + 1;
    end while;
    Put:
    if kind = "lower" then
      idx[li] := xi - 1;
    elsif kind = "higher" then
      if xn > Len(x) then idx[li] := IF fill THEN xi - 1 ELSE Len(x);
      else idx[li] := xi; end if;
    else
      if xn > Len(x) then idx[li] := xi - 1;
      elsif RLe(RSub(q[li], xval), RSub(x[xn], q[li])) then idx[li] := xi - 1;
      else idx[li] := xi; end if;
    end if;
    li := li + 1;
  end while;
end algorithm; *)
\* BEGIN TRANSLATION
VARIABLES pc, x, q, kind, fill, xi, xn, li, idx, xval

vars == << pc, x, q, kind, fill, xi, xn, li, idx, xval >>

Init == (* Global variables *)
        /\ x \in Arrays
        /\ q \in Queries
        /\ kind \in {"lower", "higher", "closest"}
        /\ fill \in BOOLEAN
        /\ xi = 1
        /\ xn = 2
        /\ li = 1
        /\ idx = [k \in 1..Len(q) |-> 0]
        /\ xval = x[1]
        /\ pc = "Pre"

Pre == /\ pc = "Pre"
       /\ IF li <= Len(q) /\ ((kind = "lower" /\ RLt(q[li], xval)) \/ (kind # "lower" /\ RLe(q[li], xval)))
             THEN /\ idx' = [idx EXCEPT ![li] = IF kind = "lower" /\ ~fill THEN -1 ELSE 0]
                  /\ li' = li + 1
                  /\ pc' = "Pre"
             ELSE /\ pc' = "Main"
                  /\ UNCHANGED << li, idx >>
       /\ UNCHANGED << x, q, kind, fill, xi, xn, xval >>

Main == /\ pc = "Main"
        /\ IF li <= Len(q)
              THEN /\ pc' = "Adv"
              ELSE /\ pc' = "Done"
        /\ UNCHANGED << x, q, kind, fill, xi, xn, li, idx, xval >>

Adv == /\ pc = "Adv"
       /\ IF xn <= Len(x) /\ ((kind = "lower" /\ RLe(x[xn], q[li])) \/ (kind # "lower" /\ RLt(x[xn], q[li])))
             THEN /\ IF kind = "closest"
                        THEN /\ xval' = x[xn]
                        ELSE /\ TRUE
                             /\ xval' = xval
                  /\ xn' = xn + 1
                  /\ xi' = xi + 1
                  /\ pc' = "Adv"
             ELSE /\ pc' = "Put"
                  /\ UNCHANGED << xi, xn, xval >>
       /\ UNCHANGED << x, q, kind, fill, li, idx >>

Put == /\ pc = "Put"
       /\ IF kind = "lower"
             THEN /\ idx' = [idx EXCEPT ![li] = xi - 1]
             ELSE /\ IF kind = "higher"
                        THEN /\ IF xn > Len(x)
                                   THEN /\ idx' = [idx EXCEPT ![li] = IF fill THEN xi - 1 ELSE Len(x)]
                                   ELSE /\ idx' = [idx EXCEPT ![li] = xi]
                        ELSE /\ IF xn > Len(x)
                                   THEN /\ idx' = [idx EXCEPT ![li] = xi - 1]
                                   ELSE /\ IF RLe(RSub(q[li], xval), RSub(x[xn], q[li]))
                                              THEN /\ idx' = [idx EXCEPT ![li] = xi - 1]
                                              ELSE /\ idx' = [idx EXCEPT ![li] = xi]
       /\ li' = li + 1
       /\ pc' = "Main"
       /\ UNCHANGED << x, q, kind, fill, xi, xn, xval >>

(* Allow infinite stuttering to prevent deadlock on termination. *)
Terminating == pc = "Done" /\ UNCHANGED vars

Next == Pre \/ Main \/ Adv \/ Put
           \/ Terminating

Spec == Init /\ [][Next]_vars

Termination == <>(pc = "Done")

\* END TRANSLATION

AlgoCorrect == pc = "Done" => idx = FindIdxs(x, q, kind, fill)
=============================================================================
