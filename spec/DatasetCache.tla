---------------------------- MODULE DatasetCache ----------------------------
(***************************************************************************)
(* Implementation-shaped specification of the remote dataset loader        *)
(*   traffic_weaver.datasets._base.load_csv_dataset_from_remote            *)
(*   + _fetch_remote                                                        *)
(* as a set of loader PROCESSES sharing a FILE SYSTEM (one cache slot per  *)
(* dataset, one temporary directory per process) and a NETWORK (remaining  *)
(* outcome sequence per URL).  One action per step boundary of the code:   *)
(*                                                                         *)
(*   pc        code (src/traffic_weaver/datasets/_base.py)         action  *)
(*   start     available = path.exists(dataset_file_path)   :248   Stat    *)
(*   mkdir     os.makedirs + TemporaryDirectory(dir=..)     :252   Mkdir   *)
(*   dl        urlretrieve(remote.url, file_path)  (begin)  :184   DlBegin *)
(*   dlmid     ... the rest of the payload is written              DlEnd   *)
(*   retry     n_retries -= 1; time.sleep(delay)            :191   Retry   *)
(*   verify    _sha256(file_path) vs remote.checksum        :195   Verify  *)
(*   parse     np.loadtxt(archive_path)                     :258   Parse   *)
(*   dump      open(tmp/<slot name>, "wb"); first half      :262   DumpBegin *)
(*   dumpmid   ... second half of the pickle written (buffered)    DumpEnd *)
(*   dumpclose the file object is closed: the tail reaches disk    DumpClose *)
(*   rename    os.rename(tmp/<slot name>, slot)             :263   Rename  *)
(*   cleanup   TemporaryDirectory.__exit__                  :253   Cleanup *)
(*   read      pickle.load(open(slot, "rb"))                :267   Read    *)
(*   ret       return dataset / the exception leaves the call      Return  *)
(*                                                                         *)
(* Crash(p) is enabled at every one of these pcs: the process disappears,  *)
(* its temporary files stay, no clean-up runs.  Every action is enabled    *)
(* per process independently of the others, so TLC explores every          *)
(* interleaving.  PROBES are loaders with the default flags that start     *)
(* once every ordinary process has returned or crashed, against a healthy  *)
(* network: "a later load".                                                *)
(*                                                                         *)
(* Values.  A file is a triple: <<"absent","","">>, <<"partial","","">>    *)
(* (exists, not a complete pickle), <<"data", d, kind>> (complete pickle   *)
(* of the parsed payload of dataset d; kind "good" = the payload with the  *)
(* pinned SHA-256, "bad" = another parseable payload).  Results have the   *)
(* same shape: <<"none","","">>, <<"data", d, kind>>, <<"exc", class, "">>.*)
(***************************************************************************)
EXTENDS Naturals, Sequences, FiniteSets

CONSTANTS
          \* @type: Set(Str);
          Procs,      \* ordinary loader processes (strings)
          \* @type: Set(Str);
          Probes,     \* probe loaders (strings), disjoint from Procs
          \* @type: Set(Str);
          Datasets,   \* dataset names (strings)
          \* @type: Str -> Str;
          UrlOf,      \* [Datasets -> STRING]  the URL each loader requests
          \* @type: Str -> Str;
          SlotOf,     \* [Datasets -> STRING]  (folder, file name) of its cache slot
          \* @type: Int;
          NRetries,   \* the n_retries argument of the ordinary loads
          \* @type: Int;
          ProbeRetries \* the n_retries argument of the probes (library default 3)

\* (the @type comments are for Apalache, spec/apalache/CacheInd.tla; TLC ignores them)
VARIABLES
          \* @type: Str -> {d: Str, dim: Bool, force: Bool, val: Bool, nret: Int};
          cfg,    \* [All -> [d, dim, force, val, nret]]  arguments of the call
          \* @type: Str -> <<Str, Str, Str>>;
          slot,   \* [Slots -> File]            the cache
          \* @type: Str -> {dir: Bool, dl: Str, pk: Str};
          tmp,    \* [All -> [dir, dl, pk]]     temp directory, downloaded file, pickle being written
          \* @type: Str -> Seq(Str);
          net,    \* [Urls -> Seq(Outcome)]     what the next requests will meet; exhausted = "ok"
          \* @type: Str -> Str;
          pc,     \* [All -> PC]
          \* @type: Str -> Int;
          left,   \* [All -> Nat]               n_retries still available
          \* @type: Str -> Str;
          mem,    \* [All -> {"none","good","bad"}]   the parsed array held in memory
          \* @type: Str -> <<Str, Str, Str>>;
          pend,   \* [All -> Result]            value / exception on its way out of the call
          \* @type: Str -> <<Str, Str, Str>>;
          res,    \* [All -> Result]            what the call delivered
          \* ---- history (ghost) variables: they never influence an action --------------------
          \* @type: Str -> Int;
          att,    \* [All -> Nat]               download attempts made
          \* @type: Str -> Int;
          fails,  \* [All -> Nat]               attempts that met URLError / TimeoutError
          \* @type: Str -> Str;
          last,   \* [All -> Outcome \cup {""}] outcome of the latest attempt
          \* @type: Str -> Bool;
          hit,    \* [All -> BOOLEAN]           the slot was a complete pickle when the call looked
          \* @type: Set(Str);
          taint,  \* SUBSET Slots               slots written by a call with validate_checksum = FALSE
                  \*                            from a payload that does not have the pinned checksum
          \* @type: <<Str, Str, Str>>;
          act     \* <<action name, process, argument>>  label of the step that produced this state (hidden by View)

All   == Procs \cup Probes
Urls  == {UrlOf[d] : d \in Datasets}
Slots == {SlotOf[d] : d \in Datasets}

Errors   == {"URLError", "TimeoutError"}
Payloads == {"ok", "corrupt", "truncated"}
Outcomes == Errors \cup Payloads

\* @type: <<Str, Str, Str>>;
Absent  == <<"absent", "", "">>
\* @type: <<Str, Str, Str>>;
Partial == <<"partial", "", "">>
\* @type: (Str, Str) => <<Str, Str, Str>>;
Data(d, k) == <<"data", d, k>>
\* @type: <<Str, Str, Str>>;
None    == <<"none", "", "">>
\* @type: Str => <<Str, Str, Str>>;
Exc(c)  == <<"exc", c, "">>
NoTmp   == [dir |-> FALSE, dl |-> "absent", pk |-> "absent"]

Live  == {"start", "mkdir", "dl", "dlmid", "retry", "verify", "parse", "dump", "dumpmid", "dumpclose",
          "rename", "cleanup", "read", "ret"}
PCs   == Live \cup {"idle", "done", "crashed"}
Terminal(p) == pc[p] \in {"done", "crashed"}

DefaultCfg(d) == [d |-> d, dim |-> TRUE, force |-> FALSE, val |-> TRUE, nret |-> ProbeRetries]

S(p) == SlotOf[cfg[p].d]
U(p) == UrlOf[cfg[p].d]
KindOf(o) == CASE o = "ok" -> "good" [] o = "corrupt" -> "bad" [] o = "truncated" -> "trunc"

vars == <<cfg, slot, tmp, net, pc, left, mem, pend, res, att, fails, last, hit, taint, act>>
View == <<cfg, slot, tmp, net, pc, left, mem, pend, res, att, fails, last, hit, taint>>

(***************************************************************************)
(* Initial states: every ordinary process is about to call the loader with *)
(* some arguments; the probes are idle.  Instances restrict the choice     *)
(* (MC_Cache*.tla).                                                        *)
(***************************************************************************)
CfgSpace == [d : Datasets, dim : BOOLEAN, force : BOOLEAN, val : BOOLEAN, nret : {NRetries}]

InitWith(c, s, n) ==
    /\ cfg = c /\ slot = s /\ net = n
    /\ tmp = [p \in All |-> NoTmp]
    /\ pc = [p \in All |-> IF p \in Procs THEN "start" ELSE "idle"]
    /\ left = [p \in All |-> c[p].nret]
    /\ mem = [p \in All |-> "none"]
    /\ pend = [p \in All |-> None]
    /\ res = [p \in All |-> None]
    /\ att = [p \in All |-> 0]
    /\ fails = [p \in All |-> 0]
    /\ last = [p \in All |-> ""]
    /\ hit = [p \in All |-> FALSE]
    /\ taint = {}
    /\ act = <<"Init", "", "">>

(***************************************************************************)
(* The step actions.                                                       *)
(***************************************************************************)
Goto(p, l) == pc' = [pc EXCEPT ![p] = l]
Label(n, p) == act' = <<n, p, "">>

Stat(p) ==
    /\ pc[p] = "start"
    /\ LET avail == slot[S(p)] # Absent     \* path.exists is true for a half-written file as well
           c == cfg[p]
       IN /\ hit' = [hit EXCEPT ![p] = (slot[S(p)][1] = "data")]
          /\ IF c.dim /\ (~avail \/ c.force)
             THEN Goto(p, "mkdir") /\ UNCHANGED pend
             ELSE IF ~avail   \* and not download_if_missing
                  THEN Goto(p, "ret") /\ pend' = [pend EXCEPT ![p] = Exc("OSError")]
                  ELSE Goto(p, "read") /\ UNCHANGED pend
    /\ Label("Stat", p)
    /\ UNCHANGED <<cfg, slot, tmp, net, left, mem, res, att, fails, last, taint>>

Mkdir(p) ==
    /\ pc[p] = "mkdir"
    /\ tmp' = [tmp EXCEPT ![p].dir = TRUE]
    /\ Goto(p, "dl") /\ Label("Mkdir", p)
    /\ UNCHANGED <<cfg, slot, net, left, mem, pend, res, att, fails, last, hit, taint>>

NextOutcome(u) == IF net[u] = <<>> THEN "ok" ELSE Head(net[u])

DlBegin(p) ==
    /\ pc[p] = "dl"
    /\ LET o == NextOutcome(U(p))
       IN /\ net' = [net EXCEPT ![U(p)] = IF @ = <<>> THEN @ ELSE Tail(@)]
          /\ att' = [att EXCEPT ![p] = @ + 1]
          /\ last' = [last EXCEPT ![p] = o]
          /\ IF o \in Errors
             THEN /\ fails' = [fails EXCEPT ![p] = @ + 1]
                  /\ IF left[p] = 0
                     THEN /\ pend' = [pend EXCEPT ![p] = Exc(o)]     \* re-raised, leaves the with-block
                          /\ Goto(p, "cleanup") /\ UNCHANGED left
                     ELSE /\ left' = [left EXCEPT ![p] = @ - 1]
                          /\ Goto(p, "retry") /\ UNCHANGED pend
                  /\ UNCHANGED tmp
             ELSE /\ tmp' = [tmp EXCEPT ![p].dl = "partial"]
                  /\ Goto(p, "dlmid")
                  /\ UNCHANGED <<fails, left, pend>>
    /\ act' = <<"DlBegin", p, NextOutcome(U(p))>>
    /\ UNCHANGED <<cfg, slot, mem, res, hit, taint>>

DlEnd(p) ==
    /\ pc[p] = "dlmid"
    /\ tmp' = [tmp EXCEPT ![p].dl = KindOf(last[p])]
    /\ Goto(p, IF cfg[p].val THEN "verify" ELSE "parse")
    /\ Label("DlEnd", p)
    /\ UNCHANGED <<cfg, slot, net, left, mem, pend, res, att, fails, last, hit, taint>>

Retry(p) ==
    /\ pc[p] = "retry"
    /\ Goto(p, "dl") /\ Label("Retry", p)
    /\ UNCHANGED <<cfg, slot, tmp, net, left, mem, pend, res, att, fails, last, hit, taint>>

Verify(p) ==
    /\ pc[p] = "verify"
    /\ IF tmp[p].dl = "good"
       THEN Goto(p, "parse") /\ UNCHANGED pend
       ELSE Goto(p, "cleanup") /\ pend' = [pend EXCEPT ![p] = Exc("OSError")]
    /\ Label("Verify", p)
    /\ UNCHANGED <<cfg, slot, tmp, net, left, mem, res, att, fails, last, hit, taint>>

Parse(p) ==
    /\ pc[p] = "parse"
    /\ IF tmp[p].dl \in {"good", "bad"}
       THEN /\ mem' = [mem EXCEPT ![p] = tmp[p].dl]
            /\ Goto(p, "dump") /\ UNCHANGED pend
       ELSE /\ pend' = [pend EXCEPT ![p] = Exc("ParseError")]   \* a cut payload does not parse
            /\ Goto(p, "cleanup") /\ UNCHANGED mem
    /\ Label("Parse", p)
    /\ UNCHANGED <<cfg, slot, tmp, net, left, res, att, fails, last, hit, taint>>

DumpBegin(p) ==
    /\ pc[p] = "dump"
    /\ tmp' = [tmp EXCEPT ![p].pk = "partial"]
    /\ Goto(p, "dumpmid") /\ Label("DumpBegin", p)
    /\ UNCHANGED <<cfg, slot, net, left, mem, pend, res, att, fails, last, hit, taint>>

DumpEnd(p) ==                    \* pickle.dump returns: the second half sits in the writer's buffer, not on disk
    /\ pc[p] = "dumpmid"
    /\ Goto(p, "dumpclose") /\ Label("DumpEnd", p)
    /\ UNCHANGED <<cfg, slot, tmp, net, left, mem, pend, res, att, fails, last, hit, taint>>

DumpClose(p) ==                  \* the file object is released / closed: now the temp file is a complete pickle
    /\ pc[p] = "dumpclose"
    /\ tmp' = [tmp EXCEPT ![p].pk = mem[p]]
    /\ Goto(p, "rename") /\ Label("DumpClose", p)
    /\ UNCHANGED <<cfg, slot, net, left, mem, pend, res, att, fails, last, hit, taint>>

Rename(p) ==                     \* atomic: the slot changes from its old content to the temp file AS IT IS on disk
    /\ pc[p] = "rename"                  \* (a complete pickle, because DumpClose comes first)
    /\ slot' = [slot EXCEPT ![S(p)] = IF tmp[p].pk \in {"good", "bad"} THEN Data(cfg[p].d, tmp[p].pk) ELSE Partial]
    /\ tmp' = [tmp EXCEPT ![p].pk = "absent"]
    /\ taint' = IF tmp[p].pk = "bad" /\ ~cfg[p].val THEN taint \cup {S(p)} ELSE taint
    /\ pend' = [pend EXCEPT ![p] = Data(cfg[p].d, mem[p])]
    /\ Goto(p, "cleanup") /\ Label("Rename", p)
    /\ UNCHANGED <<cfg, net, left, mem, res, att, fails, last, hit>>

Cleanup(p) ==
    /\ pc[p] = "cleanup"
    /\ tmp' = [tmp EXCEPT ![p] = NoTmp]
    /\ Goto(p, "ret") /\ Label("Cleanup", p)
    /\ UNCHANGED <<cfg, slot, net, left, mem, pend, res, att, fails, last, hit, taint>>

Read(p) ==
    /\ pc[p] = "read"
    /\ pend' = [pend EXCEPT ![p] = IF slot[S(p)][1] = "data" THEN slot[S(p)] ELSE Exc("UnpicklingError")]
    /\ Goto(p, "ret") /\ Label("Read", p)
    /\ UNCHANGED <<cfg, slot, tmp, net, left, mem, res, att, fails, last, hit, taint>>

Return(p) ==
    /\ pc[p] = "ret"
    /\ res' = [res EXCEPT ![p] = pend[p]]
    /\ Goto(p, "done") /\ Label("Return", p)
    /\ UNCHANGED <<cfg, slot, tmp, net, left, mem, pend, att, fails, last, hit, taint>>

Crash(p) ==                      \* SIGKILL: whatever the process had on disk stays there
    /\ p \in Procs
    /\ pc[p] \in Live
    /\ Goto(p, "crashed") /\ act' = <<"Crash", p, pc[p]>>       \* (the label names the boundary: vacuity guard)
    /\ UNCHANGED <<cfg, slot, tmp, net, left, mem, pend, res, att, fails, last, hit, taint>>

ProbeStart(q) ==                 \* a later load: default arguments, healthy network, nobody else running
    /\ q \in Probes
    /\ pc[q] = "idle"
    /\ \A p \in All \ {q} : pc[p] \in {"idle", "done", "crashed"}
    /\ \E d \in Datasets :
         /\ ~\E r \in Probes : pc[r] = "done" /\ cfg[r].d = d
         /\ cfg' = [cfg EXCEPT ![q] = DefaultCfg(d)]
         /\ net' = [net EXCEPT ![UrlOf[d]] = <<>>]
         /\ act' = <<"ProbeStart", q, d>>
    /\ left' = [left EXCEPT ![q] = ProbeRetries]
    /\ Goto(q, "start")
    /\ UNCHANGED <<slot, tmp, mem, pend, res, att, fails, last, hit, taint>>

Step(p) == \/ Stat(p) \/ Mkdir(p) \/ DlBegin(p) \/ DlEnd(p) \/ Retry(p) \/ Verify(p) \/ Parse(p)
           \/ DumpBegin(p) \/ DumpEnd(p) \/ DumpClose(p) \/ Rename(p) \/ Cleanup(p) \/ Read(p) \/ Return(p)
           \/ ProbeStart(p)

Next == \E p \in All : Step(p) \/ Crash(p)

(***************************************************************************)
(* Property C19 (module "P19" of the design, kept here next to the         *)
(* variables it talks about).  None of these mentions a pc or an action    *)
(* name: they constrain files, results and network use only, so a          *)
(* differently structured loader can satisfy them.                         *)
(***************************************************************************)
TypeOK ==
    /\ \A s \in Slots : slot[s] \in {Absent, Partial} \cup {Data(d, k) : d \in Datasets, k \in {"good", "bad"}}
    /\ \A p \in All : /\ pc[p] \in PCs
                      /\ tmp[p].dl \in {"absent", "partial", "good", "bad", "trunc"}
                      /\ tmp[p].pk \in {"absent", "partial", "good", "bad"}
                      /\ mem[p] \in {"none", "good", "bad"}

\* every slot is absent or a complete pickle of the verified payload of a dataset that owns the slot
SlotSound(s) ==
    \/ slot[s] = Absent
    \/ /\ slot[s][1] = "data"
       /\ SlotOf[slot[s][2]] = s
       /\ slot[s][3] = "good" \/ s \in taint
CacheSound == \A s \in Slots : SlotSound(s)

\* with validate_checksum on, nothing but the pinned payload is returned or cached
\* @type: <<Str, Str, Str>> => Bool;
Unverified(v) == v[1] = "data" /\ v[3] # "good"
NeverUnverified ==
    /\ \A s \in Slots : Unverified(slot[s]) => s \in taint
    /\ \A p \in All : (cfg[p].val /\ Unverified(res[p])) => S(p) \in taint

\* a call that found a complete cache entry and was not told to download again uses no network.  "Told to download again"
\* needs BOTH flags: download_if_missing = FALSE means "never try to download" (its docstring), so (dim FALSE, force TRUE)
\* on a cached dataset is served from the cache like any other request (seed C19j: `refresh = available and force`)
Refresh(p) == cfg[p].dim /\ cfg[p].force
OfflineWhenCached == \A p \in All : (hit[p] /\ ~Refresh(p)) => att[p] = 0
\* ... and is served from it, whatever download_if_missing says ("a cached dataset is served without network access")
ServedWhenCached == \A p \in All : (pc[p] = "done" /\ hit[p] /\ ~Refresh(p)) => (res[p][1] = "data" /\ res[p][2] = cfg[p].d)
OfflineStep == [][\A p \in All : (hit[p] /\ ~Refresh(p)) => att'[p] = att[p]]_vars
\* download_if_missing = FALSE: no network attempt at all, cached or not
NeverDownloadsWhenToldNotTo == \A p \in All : ~cfg[p].dim => att[p] = 0

\* at most n_retries + 1 attempts; a network error leaves the call only after n_retries + 1 failures;
\* a payload with another checksum ends a validating call with OSError
RetryBound ==
    \A p \in All :
        /\ att[p] <= cfg[p].nret + 1
        /\ (res[p][1] = "exc" /\ res[p][2] \in Errors) => fails[p] = cfg[p].nret + 1
        /\ (pc[p] = "done" /\ cfg[p].val /\ last[p] \in {"corrupt", "truncated"}) => res[p] = Exc("OSError")
        /\ (pc[p] = "done" /\ fails[p] <= cfg[p].nret /\ last[p] = "ok") => res[p] = Data(cfg[p].d, "good")

\* whatever goes wrong, a call ends with data or with one of the documented error classes (a network error, OSError for a
\* checksum mismatch / missing data, a parse error of an unverified payload) - never with a programming error
ProgrammingErrors == {"AttributeError", "TypeError", "NameError", "UnboundLocalError", "KeyError", "IndexError", "AssertionError"}
ErrorClassOK == \A p \in All : res[p][1] = "exc" => res[p][2] \notin ProgrammingErrors

\* what a call returns for d is data of d: it cannot depend on loads of another dataset
NoCrossTalk == \A p \in All : res[p][1] = "data" => res[p][2] = cfg[p].d
DistinctSlots == \A d1, d2 \in Datasets : d1 # d2 => SlotOf[d1] # SlotOf[d2] /\ UrlOf[d1] # UrlOf[d2]

\* a later load succeeds and returns exactly the verified data (liveness, under fairness of the steps)
ProbeOK(q) == /\ pc[q] = "done"
              /\ res[q][1] = "data" /\ res[q][2] = cfg[q].d
              /\ res[q][3] = "good" \/ S(q) \in taint
ProbeDone == \A q \in Probes : pc[q] = "done" => ProbeOK(q)        \* safety half
LaterLoadSucceeds == \A q \in Probes : <>ProbeOK(q)                 \* liveness half

Fairness == \A p \in All : WF_vars(Step(p))       \* crashes are never forced; every live process moves on
=============================================================================
