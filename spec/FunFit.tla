------------------------------ MODULE FunFit -------------------------------
(***************************************************************************)
(* The five elementary shape functions of funfit.py in their documented    *)
(* closed forms, over exact rationals.  With t = (x - x0)/(x1 - x0):       *)
(*   lin        y0 + (y1-y0) t                                             *)
(*   exp        y0 + (y1-y0) t^e                                           *)
(*   exp_xy     y0 + (y1-y0) (1 - (1-t)^e)                                 *)
(*   exp_lin    lin * t + exp * (1-t)          (linear/power blend)        *)
(*   lin_exp_xy exp_xy * t + lin * (1-t)                                   *)
(* The exponent e is a rational <<p, q>> with q = 1 (integer power) or     *)
(* q = 2 (half-integer power, defined when the base is a perfect-square    *)
(* rational).                                                              *)
(***************************************************************************)
EXTENDS Rat

ISqrt(n) == CHOOSE s \in 0..n : s * s <= n /\ (s + 1) * (s + 1) > n
IsSquare(n) == ISqrt(n) * ISqrt(n) = n
IsSquareRat(p) == p[1] >= 0 /\ IsSquare(p[1]) /\ IsSquare(p[2])
RSqrt(p) == <<ISqrt(p[1]), ISqrt(p[2])>>                 \* p a perfect-square rational
\* base^e defined?  (base >= 0)
PowDefined(base, e) == e[2] = 1 \/ (e[2] = 2 /\ IsSquareRat(base))
RPowQ(base, e) == IF e[2] = 1 THEN RPow(base, e[1]) ELSE RPow(RSqrt(base), e[1])

TFrac(x, x0, x1) == RDiv(RSub(x, x0), RSub(x1, x0))
Blend(y0, y1, u) == RAdd(y0, RMul(RSub(y1, y0), u))      \* y0 + (y1 - y0) u

LinFit(x, x0, y0, x1, y1)      == Blend(y0, y1, TFrac(x, x0, x1))
ExpFit(x, x0, y0, x1, y1, e)   == Blend(y0, y1, RPowQ(TFrac(x, x0, x1), e))
ExpXYFit(x, x0, y0, x1, y1, e) == Blend(y0, y1, RSub(One, RPowQ(RSub(One, TFrac(x, x0, x1)), e)))
ExpLinFit(x, x0, y0, x1, y1, e) ==
    LET t == TFrac(x, x0, x1)
    IN RAdd(RMul(LinFit(x, x0, y0, x1, y1), t), RMul(ExpFit(x, x0, y0, x1, y1, e), RSub(One, t)))
LinExpXYFit(x, x0, y0, x1, y1, e) ==
    LET t == TFrac(x, x0, x1)
    IN RAdd(RMul(ExpXYFit(x, x0, y0, x1, y1, e), t), RMul(LinFit(x, x0, y0, x1, y1), RSub(One, t)))

FitDefined(x, x0, x1, e) == PowDefined(TFrac(x, x0, x1), e) /\ PowDefined(RSub(One, TFrac(x, x0, x1)), e)

Fit(name, x, x0, y0, x1, y1, e) ==
    CASE name = "lin" -> LinFit(x, x0, y0, x1, y1)
      [] name = "exp" -> ExpFit(x, x0, y0, x1, y1, e)
      [] name = "exp_xy" -> ExpXYFit(x, x0, y0, x1, y1, e)
      [] name = "exp_lin" -> ExpLinFit(x, x0, y0, x1, y1, e)
      [] name = "lin_exp_xy" -> LinExpXYFit(x, x0, y0, x1, y1, e)
FitNames == {"lin", "exp", "exp_xy", "exp_lin", "lin_exp_xy"}

(***************************************************************************)
(* Theorems checked on the bounded instance (MC_FunFit): both end points   *)
(* are hit, every value is a convex combination of the end values (so the  *)
(* window strategies cannot overshoot), the blends are the stated blends,  *)
(* and the functions are affine in the two anchor values.                  *)
(***************************************************************************)
EndPoints(name, x0, y0, x1, y1, e) ==
    /\ Fit(name, x0, x0, y0, x1, y1, e) = y0
    /\ Fit(name, x1, x0, y0, x1, y1, e) = y1
Convex(name, x, x0, y0, x1, y1, e) == RBetween(Fit(name, x, x0, y0, x1, y1, e), y0, y1)
\* unit response u(x) = Fit(x; (x0,0), (x1,1)); Fit = y0 + (y1 - y0) u
AffineInAnchors(name, x, x0, y0, x1, y1, e) ==
    Fit(name, x, x0, y0, x1, y1, e) = Blend(y0, y1, Fit(name, x, x0, Zero, x1, One, e))
=============================================================================
