------------------------------- MODULE Weaver -------------------------------
(***************************************************************************)
(* The Weaver object (weaver.py) as a state machine over exact rationals.  *)
(*                                                                         *)
(* State (record w):                                                       *)
(*   x, y     working series        rx, ry  reference series               *)
(*   ox, oy   original series       reshaped  has a reshaping operation    *)
(*   yopaque  the working values were produced by an environment step      *)
(*            (SciPy spline / NumPy generator) and are not recomputed      *)
(* An operation is a record op with a kind op.k and its arguments; one     *)
(* action per public mutator, Apply(w, op) is its effect, Rejects(w, op)   *)
(* its argument check (ValueError, state unchanged).                       *)
(***************************************************************************)
EXTENDS Process, Rfa, Match

DomainOps == {"append", "shift_x", "shift_y", "scale_x", "scale_y", "normalize_x", "normalize_y", "repeat",
              "truncate_value", "truncate_index"}
ReshapeOps == {"recreate", "integral_match", "interpolate_n", "interpolate_grid", "trend", "smooth", "noise"}
ReadOps == {"slice_index", "slice_value", "get", "to_function", "len", "to_2d_array"}

New(x, y) == [x |-> x, y |-> y, rx |-> x, ry |-> y, ox |-> x, oy |-> y, reshaped |-> FALSE, yopaque |-> FALSE]

IsConst(s) == \A i \in 1..Len(s) : s[i] = s[1]
StopIdx(s, stop) == IF stop = NoneInt THEN Len(s) ELSE stop

(***************************************************************************)
(* Argument checks: the request is refused with ValueError                 *)
(***************************************************************************)
Rejects(w, op) ==
    \* the range is converted per series (ratio bounds refer to each series' own span): the request is refused when it is
    \* empty or inverted for the working series or for the reference series
    CASE op.k = "truncate_value" -> TruncRejects(w.x, op.left, op.right, op.lr, op.rr)
                                    \/ (Len(w.rx) >= 1 /\ TruncRejects(w.rx, op.left, op.right, op.lr, op.rr))
      [] op.k \in {"truncate_index", "slice_index"} -> op.start < 0 \/ (op.stop # NoneInt /\ op.stop > Len(w.x))
      [] op.k = "slice_value" -> (op.start # None /\ \A i \in 1..Len(w.x) : w.x[i] # op.start)
                                 \/ (op.stop # None /\ \A i \in 1..Len(w.x) : w.x[i] # op.stop)
      [] op.k = "recreate" -> op.n < 2
      \* (an unknown name of the fixed-point search strategy is refused whatever the two series look like - seed C20k: accepted
      \*  while working and reference abscissae coincide)
      [] op.k = "integral_match" -> op.trule \notin Rules \/ op.rrule \notin Rules
                                    \/ ("fstrategy" \in DOMAIN op /\ op.fstrategy \notin {"closest", "lower", "higher"})
      [] op.k = "interpolate_grid" -> op.q[1] # w.x[1] \/ Last(op.q) # Last(w.x) \/ op.method \notin {"linear", "constant", "cubic", "spline"}
      [] op.k = "interpolate_n" -> op.method \notin {"linear", "constant", "cubic", "spline"}
      [] op.k = "interpolate_none" -> TRUE                \* neither a number of samples nor a grid was given
      [] OTHER -> FALSE

\* outside the documented precondition of the operation: explored, never judged
OutOfScope(w, op) ==
    CASE op.k = "normalize_x" -> IsConst(w.x) \/ IsConst(w.rx) \/ IsConst(w.ox)
      [] op.k = "normalize_y" -> (~w.yopaque /\ IsConst(w.y)) \/ IsConst(w.ry) \/ IsConst(w.oy)
      [] op.k = "append" -> Len(w.x) < 2 \/ Len(w.rx) < 2
      [] op.k = "repeat" -> op.r < 1 \/ Len(w.x) < 2 \/ Len(w.rx) < 2
      [] op.k = "scale_x" -> RLe(op.v, Zero)
      [] op.k = "scale_y" -> op.v = Zero
      \* the reference is cut with the same bounds: a cut that leaves fewer than two working or reference samples (possible
      \* once the series has been reshaped and the two no longer have the same length) is outside the documented use
      [] op.k = "truncate_index" -> ~Rejects(w, op) /\ (StopIdx(w.x, op.stop) - op.start < 2 \/ (op.stop # NoneInt /\ op.stop < 0)
                                                        \/ Len(SliceSeq(w.rx, op.start, StopIdx(w.x, op.stop), 1)) < 2)
      [] op.k = "truncate_value" -> ~Rejects(w, op) /\
                                    (\/ Len(w.rx) < 2
                                     \/ LET r == TruncRange(w.x, op.left, op.right, op.lr, op.rr) IN r[2] - r[1] < 2
                                     \/ LET r == TruncRange(w.rx, op.left, op.right, op.lr, op.rr) IN r[2] - r[1] < 2)
      [] op.k = "recreate" -> Len(w.x) < 2
      [] op.k = "poke" -> op.i < 0 \/ op.i >= Len(w.x)
      [] op.k = "smooth" -> Len(w.x) < 5
      [] op.k \in {"interpolate_n", "interpolate_grid"} -> Len(w.x) < 4 \/ (op.k = "interpolate_n" /\ op.n < 2)
      [] OTHER -> FALSE

(***************************************************************************)
(* Effects                                                                 *)
(***************************************************************************)
RecreateOut(x, y, op) ==
    LET a == WindowA(op.n, op.alpha, op.a)
    IN CASE op.strategy = "PiecewiseConstant" -> PiecewiseConstant(x, y, op.n)
         [] op.strategy = "LinearFixed" -> LinearFixed(x, y, op.n, a)
         [] op.strategy = "ExpFixed" -> ExpFixed(x, y, op.n, a, op.beta, op.exp)
         [] op.strategy = "LinearAdaptive" -> LinearAdaptive(x, y, op.n, a, op.smooth)
         [] op.strategy = "ExpAdaptive" -> ExpAdaptive(x, y, op.n, a, op.smooth, op.beta, op.exp)

Apply(w, op) ==
    CASE op.k = "append" ->
            LET a == AppendOneSample(w.x, w.y, op.periodic)  r == AppendOneSample(w.rx, w.ry, op.periodic)
            IN [w EXCEPT !.x = a[1], !.y = a[2], !.rx = r[1], !.ry = r[2]]
      [] op.k = "shift_x" -> [w EXCEPT !.x = ShiftSeq(w.x, op.v), !.rx = ShiftSeq(w.rx, op.v)]
      [] op.k = "shift_y" -> [w EXCEPT !.y = IF w.yopaque THEN w.y ELSE ShiftSeq(w.y, op.v), !.ry = ShiftSeq(w.ry, op.v)]
      [] op.k = "scale_x" -> [w EXCEPT !.x = ScaleSeq(w.x, op.v), !.rx = ScaleSeq(w.rx, op.v)]
      [] op.k = "scale_y" -> [w EXCEPT !.y = IF w.yopaque THEN w.y ELSE ScaleSeq(w.y, op.v), !.ry = ScaleSeq(w.ry, op.v)]
      [] op.k = "normalize_x" ->
            [w EXCEPT !.x = Normalize(w.x, op.lo, op.hi), !.rx = Normalize(w.rx, op.lo, op.hi), !.ox = Normalize(w.ox, op.lo, op.hi)]
      [] op.k = "normalize_y" ->
            [w EXCEPT !.y = IF w.yopaque THEN w.y ELSE Normalize(w.y, op.lo, op.hi), !.ry = Normalize(w.ry, op.lo, op.hi), !.oy = Normalize(w.oy, op.lo, op.hi)]
      [] op.k = "repeat" ->
            LET a == Repeat(w.x, w.y, op.r)  r == Repeat(w.rx, w.ry, op.r)
            IN [w EXCEPT !.x = a[1], !.y = a[2], !.rx = r[1], !.ry = r[2]]
      [] op.k = "truncate_value" ->
            LET a == Truncate(w.x, w.y, op.left, op.right, op.lr, op.rr)
                r == Truncate(w.rx, w.ry, op.left, op.right, op.lr, op.rr)
            IN [w EXCEPT !.x = a[1], !.y = a[2], !.rx = r[1], !.ry = r[2]]
      [] op.k = "truncate_index" ->
            [w EXCEPT !.x = SliceSeq(w.x, op.start, StopIdx(w.x, op.stop), 1), !.y = SliceSeq(w.y, op.start, StopIdx(w.x, op.stop), 1),
                      !.rx = SliceSeq(w.rx, op.start, StopIdx(w.x, op.stop), 1), !.ry = SliceSeq(w.ry, op.start, StopIdx(w.x, op.stop), 1)]
      [] op.k = "restore_original" ->
            \* behaves afterwards like a newly constructed object on the data get_original() returns
            New(w.ox, w.oy)
      [] op.k = "recreate" ->
            \* (the cubic spline and user-supplied sampling functions: values are an environment step, the grid is not)
            IF op.strategy \notin {"PiecewiseConstant", "LinearFixed", "ExpFixed", "LinearAdaptive", "ExpAdaptive"} \/ w.yopaque
            THEN [w EXCEPT !.x = OversampleLinspace(w.x, op.n), !.y = OversamplePiecewise(w.y, op.n), !.yopaque = TRUE, !.reshaped = TRUE]
            ELSE LET o == RecreateOut(w.x, w.y, op) IN [w EXCEPT !.x = o[1], !.y = o[2], !.reshaped = TRUE]
      [] op.k = "integral_match" ->
            IF w.yopaque THEN [w EXCEPT !.reshaped = TRUE] ELSE
            [w EXCEPT !.y = Match(w.x, w.y, w.rx, w.ry, "search", "closest", <<>>, op.trule, op.rrule, op.alpha), !.reshaped = TRUE]
      [] op.k = "interpolate_n" ->
            LET q == Linspace(w.x[1], Last(w.x), op.n)
            IN [w EXCEPT !.x = q, !.reshaped = TRUE,
                         !.y = IF op.method = "linear" /\ ~w.yopaque THEN InterpLinearSeq(w.x, w.y, q)
                               ELSE IF op.method = "constant" /\ ~w.yopaque THEN InterpConstantSeq(w.x, w.y, q, None) ELSE q,
                         !.yopaque = w.yopaque \/ op.method \notin {"linear", "constant"}]
      [] op.k = "interpolate_grid" ->
            [w EXCEPT !.x = op.q, !.reshaped = TRUE,
                      !.y = IF op.method = "linear" /\ ~w.yopaque THEN InterpLinearSeq(w.x, w.y, op.q)
                            ELSE IF op.method = "constant" /\ ~w.yopaque THEN InterpConstantSeq(w.x, w.y, op.q, None) ELSE op.q,
                      !.yopaque = w.yopaque \/ op.method \notin {"linear", "constant"}]
      [] op.k = "trend" ->
            IF w.yopaque THEN [w EXCEPT !.reshaped = TRUE]
            ELSE [w EXCEPT !.y = Trend(w.x, w.y, op.c, op.normalized)[2], !.reshaped = TRUE]
      [] op.k \in {"smooth", "noise"} -> [w EXCEPT !.yopaque = TRUE, !.reshaped = TRUE]
      \* the caller writes into the array get() handed out (the test suite does): the working series is the caller's to
      \* reshape that way, the reference and the original are not reachable through it
      [] op.k = "poke" -> IF w.yopaque THEN [w EXCEPT !.reshaped = TRUE]
                          ELSE [w EXCEPT !.y = [w.y EXCEPT ![op.i + 1] = RAdd(@, op.d)], !.reshaped = TRUE]
      [] OTHER -> w                                        \* read-only operations

\* one call: refused (state unchanged) or applied
Call(w, op) == IF Rejects(w, op) THEN w ELSE Apply(w, op)
Outcome(w, op) == IF Rejects(w, op) THEN "ValueError" ELSE "ok"

RECURSIVE RunOps(_, _, _)
RunOps(w, ops, k) == IF k > Len(ops) THEN w ELSE RunOps(Call(w, ops[k]), ops, k + 1)

(***************************************************************************)
(* Values returned by the read-only operations (beyond the listed          *)
(* properties): len, to_2d_array (rows (x_i, y_i), flattened), slices.     *)
(***************************************************************************)
Interleave(x, y) == [i \in 1..(2 * Len(x)) |-> IF Mod(i, 2) = 1 THEN x[(i + 1) \div 2] ELSE y[i \div 2]]
ReadResult(w, op) ==
    CASE op.k = "len" -> <<RInt(Len(w.x))>>
      [] op.k = "to_2d_array" -> Interleave(w.x, w.y)
      [] op.k = "slice_index" ->
            LET st == IF "step" \in DOMAIN op THEN op.step ELSE 1
            IN SliceSeq(w.x, op.start, StopIdx(w.x, op.stop), st) \o SliceSeq(w.y, op.start, StopIdx(w.x, op.stop), st)
      [] op.k = "slice_value" ->
            LET s0 == IF op.start = None THEN 0 ELSE (CHOOSE i \in 1..Len(w.x) : w.x[i] = op.start) - 1
                s1 == IF op.stop = None THEN Len(w.x) ELSE (CHOOSE i \in 1..Len(w.x) : w.x[i] = op.stop)
            IN SliceSeq(w.x, s0, s1, 1) \o SliceSeq(w.y, s0, s1, 1)
      [] op.k = "to_function" -> w.y                      \* the default (interpolating) spline evaluated at the samples
      [] OTHER -> <<>>

(***************************************************************************)
(* Property clauses on states / steps                                      *)
(***************************************************************************)
\* P08: while unreshaped the working and the reference series are identical
WorkingIsReference(w) == ~w.reshaped => (w.x = w.rx /\ w.y = w.ry)
\* P08: reshaping operations never alter the reference; P09: the original changes only under normalisation
StepFrames(w, op, w2) ==
    /\ (op.k \in ReshapeOps \cup ReadOps => (w2.rx = w.rx /\ w2.ry = w.ry))
    /\ (op.k \notin {"normalize_x", "normalize_y"} => (w2.ox = w.ox /\ w2.oy = w.oy))
    /\ (Rejects(w, op) => w2 = w)                                         \* P20
\* P09 (value part): equal lengths, strictly increasing abscissae
WellFormed(w) == /\ Len(w.x) = Len(w.y) /\ Len(w.rx) = Len(w.ry) /\ Len(w.ox) = Len(w.oy)
                 /\ StrictlyIncreasing(w.x) /\ StrictlyIncreasing(w.rx) /\ StrictlyIncreasing(w.ox)
=============================================================================
