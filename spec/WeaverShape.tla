----------------------------- MODULE WeaverShape ----------------------------
(***************************************************************************)
(* Shape / aliasing abstraction of the Weaver object: lengths of the three *)
(* series, which caller-owned buffers the working arrays share memory with *)
(* and whether the series has been reshaped.  Values are abstracted away,  *)
(* so programs of many operations over the whole API can be explored       *)
(* exhaustively.  What each operation does to buffers:                     *)
(*   construct(ndarray)      x, y ARE the caller's arrays (lists: copies)  *)
(*   shift/scale/normalise   the touched axis becomes a fresh array        *)
(*   append/repeat/restore/recreate   all working arrays fresh             *)
(*   truncate (value/index)  views of the previous buffers                 *)
(*   match/smooth/noise/trend   y fresh, x untouched                       *)
(*   interpolate             y fresh; x fresh linspace, or the caller's    *)
(*                           grid itself (ndarray) / a fresh copy (list)   *)
(* P09 forbids exactly one kind of step: a write into a caller-owned       *)
(* buffer (wrote # {}); no action of the specification performs one.       *)
(***************************************************************************)
EXTENDS Integers, Sequences, FiniteSets

Buffers == {"cx", "cy", "grid"}

\* s: [n (working length), r (reference length), o (original length), sx, sy (caller buffers shared by x / y),
\*     reshaped, wrote (caller buffers written by the last operation)]
\*     rec (the working series is a fresh recreation of the unreshaped series: the documented position of integral_match)
NewShape(m, asArray) == [n |-> m, r |-> m, o |-> m, sx |-> IF asArray THEN {"cx"} ELSE {}, sy |-> IF asArray THEN {"cy"} ELSE {},
                         reshaped |-> FALSE, rec |-> FALSE, wrote |-> {}]

Acts ==
    {[k |-> "append"], [k |-> "restore_original"], [k |-> "integral_match"], [k |-> "smooth"], [k |-> "noise"], [k |-> "trend"], [k |-> "read"]}
    \cup {[k |-> a] : a \in {"shift_x", "scale_x", "normalize_x", "shift_y", "scale_y", "normalize_y"}}
    \cup {[k |-> "repeat", r |-> r] : r \in {2, 3}}
    \cup {[k |-> "truncate", drop |-> d, by |-> b] : d \in {1, 2}, b \in {"value", "index"}}
    \cup {[k |-> "recreate", n |-> n, strat |-> s] : n \in {2, 3}, s \in {"window", "piecewise", "spline"}}
    \cup {[k |-> "interpolate_n", m |-> m, method |-> me] : m \in {3, 7}, me \in {"linear", "constant", "cubic", "spline"}}
    \cup {[k |-> "interpolate_grid", m |-> m, grid |-> g] : m \in {3, 5}, g \in {"array", "list"}}

Enabled(s, a, MaxLen) ==
    CASE a.k = "repeat" -> s.n * a.r <= MaxLen /\ s.r * a.r <= MaxLen
      [] a.k = "truncate" -> s.n - a.drop >= 4 /\ ~s.reshaped
      [] a.k = "recreate" -> (s.n - 1) * a.n + 1 <= MaxLen
      [] a.k = "integral_match" -> s.rec                               \* documented use: right after recreate
      [] a.k = "append" -> s.n + 1 <= MaxLen /\ s.r + 1 <= MaxLen
      [] a.k \in {"interpolate_n", "interpolate_grid", "smooth"} -> s.n >= 5
      [] OTHER -> TRUE

Do(s, a) ==
    LET t == [s EXCEPT !.wrote = {}, !.rec = IF a.k \in {"append", "repeat", "truncate", "restore_original", "interpolate_n", "interpolate_grid", "recreate"}
                                                  THEN (a.k = "recreate" /\ ~s.reshaped) ELSE s.rec]
    IN CASE a.k = "append" -> [t EXCEPT !.n = s.n + 1, !.r = s.r + 1, !.sx = {}, !.sy = {}]
         [] a.k \in {"shift_x", "scale_x", "normalize_x"} -> [t EXCEPT !.sx = {}]
         [] a.k \in {"shift_y", "scale_y", "normalize_y"} -> [t EXCEPT !.sy = {}]
         [] a.k = "repeat" -> [t EXCEPT !.n = s.n * a.r, !.r = s.r * a.r, !.sx = {}, !.sy = {}]
         [] a.k = "truncate" -> [t EXCEPT !.n = s.n - a.drop, !.r = s.r - a.drop]
         [] a.k = "restore_original" -> [t EXCEPT !.n = s.o, !.r = s.o, !.sx = {}, !.sy = {}, !.reshaped = FALSE]
         [] a.k = "recreate" -> [t EXCEPT !.n = (s.n - 1) * a.n + 1, !.sx = {}, !.sy = {}, !.reshaped = TRUE]
         [] a.k \in {"integral_match", "smooth", "noise", "trend"} -> [t EXCEPT !.sy = {}, !.reshaped = TRUE]
         [] a.k = "interpolate_n" -> [t EXCEPT !.n = a.m, !.sx = {}, !.sy = {}, !.reshaped = TRUE]
         [] a.k = "interpolate_grid" -> [t EXCEPT !.n = a.m, !.sx = IF a.grid = "array" THEN {"grid"} ELSE {}, !.sy = {}, !.reshaped = TRUE]
         [] OTHER -> t

\* P09 on the abstraction
CallerIntact(s) == s.wrote = {}
LengthsSane(s) == s.n >= 2 /\ s.r >= 2 /\ s.o >= 2
=============================================================================
