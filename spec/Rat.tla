------------------------------- MODULE Rat -------------------------------
(***************************************************************************)
(* Exact rational arithmetic for TLC (32-bit integers, loud overflow).     *)
(* A rational is a normalised pair <<n, d>> with d > 0 and gcd(|n|,d) = 1; *)
(* zero is <<0, 1>>.  Every operator returns a normalised value, so `=`    *)
(* on rationals is value equality.  Multiplication cross-cancels first, so *)
(* intermediates stay small.                                               *)
(***************************************************************************)
EXTENDS Integers, Sequences

Abs(a) == IF a < 0 THEN -a ELSE a
Mod(a, b) == a % b          \* (SANY's linter chokes on a literal percent sign in some contexts)
Sgn(a) == IF a < 0 THEN -1 ELSE IF a > 0 THEN 1 ELSE 0

RECURSIVE Gcd(_, _)
Gcd(a, b) == IF b = 0 THEN a ELSE Gcd(b, a % b)

RNorm(n, d) ==
    IF n = 0 THEN <<0, 1>>
    ELSE LET g == Gcd(Abs(n), Abs(d))
             s == IF d < 0 THEN -1 ELSE 1
         IN <<s * (n \div g), s * (d \div g)>>

Zero == <<0, 1>>
One  == <<1, 1>>
RInt(k) == <<k, 1>>
IsRat(r) == /\ r \in Seq(Int) /\ Len(r) = 2 /\ r[2] > 0 /\ Gcd(Abs(r[1]), r[2]) = 1

RNeg(p) == <<-p[1], p[2]>>
RAbs(p) == <<Abs(p[1]), p[2]>>
RSgn(p) == Sgn(p[1])

RMul(p, q) ==
    IF p[1] = 0 \/ q[1] = 0 THEN Zero
    ELSE LET g1 == Gcd(Abs(p[1]), q[2])
             g2 == Gcd(Abs(q[1]), p[2])
         IN <<(p[1] \div g1) * (q[1] \div g2), (p[2] \div g2) * (q[2] \div g1)>>

RInv(p) == IF p[1] < 0 THEN <<-p[2], -p[1]>> ELSE <<p[2], p[1]>>   \* p # 0
RDiv(p, q) == RMul(p, RInv(q))

RAdd(p, q) ==
    IF p[1] = 0 THEN q ELSE IF q[1] = 0 THEN p
    ELSE LET g == Gcd(p[2], q[2])
         IN RNorm(p[1] * (q[2] \div g) + q[1] * (p[2] \div g), (p[2] \div g) * q[2])
RSub(p, q) == RAdd(p, RNeg(q))

\* comparisons: cross-multiplication after removing the common factor of the denominators
RCmp(p, q) == LET g == Gcd(p[2], q[2])
              IN Sgn(p[1] * (q[2] \div g) - q[1] * (p[2] \div g))
RLt(p, q) == RCmp(p, q) < 0
RLe(p, q) == RCmp(p, q) <= 0
RGt(p, q) == RCmp(p, q) > 0
RGe(p, q) == RCmp(p, q) >= 0
RMin(p, q) == IF RLe(p, q) THEN p ELSE q
RMax(p, q) == IF RGe(p, q) THEN p ELSE q
\* p lies in the closed interval spanned by a and b (in either order)
RBetween(p, a, b) == /\ RLe(RMin(a, b), p) /\ RLe(p, RMax(a, b))

IsInt(p) == p[2] = 1
\* floor, and Python's int() (truncation towards zero)
RFloor(p) == IF p[1] >= 0 THEN p[1] \div p[2] ELSE -((-p[1] + p[2] - 1) \div p[2])
RTrunc(p) == IF p[1] >= 0 THEN p[1] \div p[2] ELSE -((-p[1]) \div p[2])

RECURSIVE RPow(_, _)
RPow(p, k) == IF k = 0 THEN One ELSE RMul(p, RPow(p, k - 1))      \* k \in Nat

\* ---- sequences of rationals ------------------------------------------------
RECURSIVE RSumFrom(_, _)
RSumFrom(s, i) == IF i > Len(s) THEN Zero ELSE RAdd(s[i], RSumFrom(s, i + 1))
RSum(s) == RSumFrom(s, 1)

RSeqMin(s) == CHOOSE m \in {s[i] : i \in 1..Len(s)} : \A j \in 1..Len(s) : RLe(m, s[j])
RSeqMax(s) == CHOOSE m \in {s[i] : i \in 1..Len(s)} : \A j \in 1..Len(s) : RGe(m, s[j])
StrictlyIncreasing(s) == \A i \in 1..(Len(s) - 1) : RLt(s[i], s[i + 1])
NonDecreasing(s) == \A i \in 1..(Len(s) - 1) : RLe(s[i], s[i + 1])
RMap1(Op(_), s) == [i \in 1..Len(s) |-> Op(s[i])]
IntSeq(s) == [i \in 1..Len(s) |-> RInt(s[i])]
=============================================================================
