------------------------------ MODULE CacheInd ------------------------------
(* Inductive-invariant check of the remote-loader specification (DatasetCache.tla, the SAME module TLC explores and the
   trace specification reuses) with Apalache: for a fixed but larger population (NP ordinary loaders, 2 probes, 3 datasets)
   the safety half of P19 holds in EVERY reachable state, at any depth, for any network behaviour and any n_retries -
   TLC's exhaustive instances stop at three processes and a bounded number of faults.

     (base)  BaseInit  => IndInv            apalache-mc check --cinit=ConstInit --init=BaseInit --inv=IndInv --length=0
     (step)  IndInv /\ Next => IndInv'      apalache-mc check --cinit=ConstInit --init=IndInit  --inv=IndInv --length=1
     (goal)  IndInv => CacheSound /\ NeverUnverified /\ NoCrossTalk /\ OfflineWhenCached /\ ServedWhenCached /\ ErrorClassOK /\ RetryBound
             (conjuncts of IndInv, nothing to check)
     (control) IndInvWeak (IndInv without the facts about the dump / rename boundaries) is NOT inductive: Apalache must
             report a counterexample for it, otherwise the step check proves nothing (vacuous IndInit).

   The network is left arbitrary (Apalache's Gen): the step relation only looks at the head of an outcome sequence.
   This says nothing about the code; the code stays bound to DatasetCache.tla by replay and trace validation (C19). *)
EXTENDS DatasetCache, Apalache, Integers

Kinds2 == {"good", "bad"}
ExcClasses == {"OSError", "URLError", "TimeoutError", "ParseError", "UnpicklingError"}
FileSet == {Absent, Partial} \cup {Data(d, k) : d \in Datasets, k \in Kinds2}
ResultSet == {None} \cup {Exc(c) : c \in ExcClasses} \cup {Data(d, k) : d \in Datasets, k \in Kinds2}
CfgSet == [d : Datasets, dim : BOOLEAN, force : BOOLEAN, val : BOOLEAN, nret : 0..3]
TmpSet == [dir : BOOLEAN, dl : {"absent", "partial", "good", "bad", "trunc"}, pk : {"absent", "partial", "good", "bad"}]

ConstInit ==
    /\ Procs = {"p1", "p2", "p3", "p4", "p5", "p6", "p7", "p8"}
    /\ Probes = {"q1", "q2"}
    /\ Datasets = {"a", "b", "c"}
    /\ UrlOf = [d \in {"a", "b", "c"} |-> IF d = "a" THEN "ua" ELSE IF d = "b" THEN "ub" ELSE "uc"]
    /\ SlotOf = [d \in {"a", "b", "c"} |-> IF d = "a" THEN "sa" ELSE IF d = "b" THEN "sb" ELSE "sc"]
    /\ NRetries = 3
    /\ ProbeRetries = 3

ConstInitQuick ==          \* the quick tier's population: 3 ordinary loaders, 1 probe, 2 datasets
    /\ Procs = {"p1", "p2", "p3"}
    /\ Probes = {"q1"}
    /\ Datasets = {"a", "b"}
    /\ UrlOf = [d \in {"a", "b"} |-> IF d = "a" THEN "ua" ELSE "ub"]
    /\ SlotOf = [d \in {"a", "b"} |-> IF d = "a" THEN "sa" ELSE "sb"]
    /\ NRetries = 3
    /\ ProbeRetries = 3

NetOK == /\ DOMAIN net = Urls
         /\ \A u \in Urls : \A i \in DOMAIN net[u] : net[u][i] \in Outcomes

(* ---- the strengthening: what each process knows at each boundary ---- *)
PTypes(p) ==
    /\ pc[p] \in PCs
    /\ left[p] >= 0 /\ att[p] >= 0 /\ fails[p] >= 0
    /\ pend[p] \in ResultSet /\ res[p] \in ResultSet
    /\ last[p] \in Outcomes \cup {""}
    /\ mem[p] \in {"none", "good", "bad"}

MemOK(p)    == mem[p] = "bad" => ~cfg[p].val                         \* a validating call never holds an unverified array
ParseOK(p)  == (pc[p] = "parse" /\ cfg[p].val) => tmp[p].dl = "good"  \* ... because it parses only after Verify passed
DumpOK(p)   == pc[p] \in {"dump", "dumpmid", "dumpclose", "rename"} => mem[p] \in Kinds2
RenameOK(p) == pc[p] = "rename" => tmp[p].pk = mem[p]                \* the temp file is a complete pickle of the array
\* @type: (Str, <<Str, Str, Str>>) => Bool;
ValueOK(p, v) == v[1] = "data" => (v[2] = cfg[p].d /\ (v[3] = "good" \/ S(p) \in taint \/ ~cfg[p].val))
IdleOK(p)   == pc[p] \in {"idle", "start"} => (pend[p] = None /\ res[p] = None /\ mem[p] = "none" /\ ~hit[p] /\ att[p] = 0
                                                /\ fails[p] = 0 /\ last[p] = "")
(* the retry loop: attempts, failures and the remaining budget move together; where a call stands determines what the latest
   attempt met and what is on its way out (RetryBound is a consequence) *)
NR(p)   == cfg[p].nret
Payl(p) == last[p] \in Payloads
\* @type: (Str, <<Str, Str, Str>>) => Bool;
OutOK(p, v) == IF last[p] = "ok" THEN v = Data(cfg[p].d, "good")
               ELSE (cfg[p].val => v = Exc("OSError"))
RetryOK(p) ==
    /\ fails[p] <= NR(p) + 1
    /\ att[p] = fails[p] + (IF Payl(p) THEN 1 ELSE 0)
    /\ (att[p] = 0) = (last[p] = "")
    /\ IF fails[p] = NR(p) + 1
       THEN /\ left[p] = 0 /\ last[p] \in Errors
            /\ pc[p] \in {"cleanup", "ret", "done", "crashed"}
            /\ pc[p] \in {"cleanup", "ret"} => pend[p] = Exc(last[p])
            /\ pc[p] = "done" => res[p] = Exc(last[p])
       ELSE left[p] = NR(p) - fails[p]
    /\ pc[p] \in {"idle", "start", "mkdir", "read"} => att[p] = 0
    /\ pc[p] = "dl" => ~Payl(p)
    /\ pc[p] = "retry" => last[p] \in Errors
    /\ pc[p] = "dlmid" => Payl(p)
    /\ pc[p] = "verify" => cfg[p].val
    /\ pc[p] \in {"verify", "parse"} => (Payl(p) /\ tmp[p].dl = KindOf(last[p]))
    /\ pc[p] \in {"dump", "dumpmid", "dumpclose", "rename"} => (Payl(p) /\ mem[p] = KindOf(last[p]) /\ (cfg[p].val => last[p] = "ok"))
    /\ (pc[p] \in {"cleanup", "ret"} /\ Payl(p)) => OutOK(p, pend[p])
    /\ (pc[p] = "done" /\ Payl(p)) => OutOK(p, res[p])
    /\ (pend[p][1] = "exc" /\ pend[p][2] \in Errors) => fails[p] = NR(p) + 1
    /\ (res[p][1] = "exc" /\ res[p][2] \in Errors) => fails[p] = NR(p) + 1
OfflineOK(p) == (hit[p] /\ ~Refresh(p)) =>
                    /\ att[p] = 0
                    /\ pc[p] \in {"read", "ret", "done", "crashed"}
                    /\ pc[p] = "read" => slot[S(p)][1] = "data"       \* a complete entry is never replaced by less
                    /\ pc[p] = "ret" => (pend[p][1] = "data" /\ pend[p][2] = cfg[p].d)
                    /\ pc[p] = "done" => (res[p][1] = "data" /\ res[p][2] = cfg[p].d)

PInvCore(p) == PTypes(p) /\ MemOK(p) /\ ParseOK(p) /\ ValueOK(p, pend[p]) /\ ValueOK(p, res[p]) /\ IdleOK(p) /\ OfflineOK(p) /\ RetryOK(p)
PInv(p) == PInvCore(p) /\ DumpOK(p) /\ RenameOK(p)

Shape ==
    /\ cfg \in [All -> CfgSet]
    /\ slot \in [Slots -> FileSet]
    /\ tmp \in [All -> TmpSet]
    /\ taint \in SUBSET Slots
    /\ NetOK

Goal == CacheSound /\ NeverUnverified /\ NoCrossTalk /\ OfflineWhenCached /\ ServedWhenCached /\ ErrorClassOK /\ RetryBound

IndInv     == Shape /\ (\A p \in All : PInv(p)) /\ Goal
IndInvWeak == Shape /\ (\A p \in All : PInvCore(p)) /\ Goal          \* negative control: must NOT be inductive

Arbitrary ==
    /\ cfg \in [All -> CfgSet]
    /\ slot \in [Slots -> FileSet]
    /\ tmp \in [All -> TmpSet]
    /\ net = Gen(3)
    /\ pc \in [All -> PCs]
    /\ left \in [All -> Int] /\ att \in [All -> Int] /\ fails \in [All -> Int]
    /\ mem \in [All -> {"none", "good", "bad"}]
    /\ pend \in [All -> ResultSet] /\ res \in [All -> ResultSet]
    /\ last \in [All -> Outcomes \cup {""}]
    /\ hit \in [All -> BOOLEAN]
    /\ taint \in SUBSET Slots
    /\ act = <<"", "", "">>

IndInit     == Arbitrary /\ IndInv
IndInitWeak == Arbitrary /\ IndInvWeak

(* the initial states of every TLC instance (MC_Cache!MCInit) are instances of this *)
BaseInit ==
    \E c \in [All -> CfgSet], s \in [Slots -> {"absent", "good"}] :
        /\ net = Gen(3) /\ DOMAIN net = Urls /\ (\A u \in Urls : \A i \in DOMAIN net[u] : net[u][i] \in Outcomes)
        /\ cfg = c
        /\ slot = [x \in Slots |-> IF s[x] = "absent" THEN Absent
                                   ELSE IF x = "sa" THEN Data("a", "good") ELSE IF x = "sb" THEN Data("b", "good")
                                   ELSE Data("c", "good")]
        /\ tmp = [p \in All |-> NoTmp]
        /\ pc = [p \in All |-> IF p \in Procs THEN "start" ELSE "idle"]
        /\ left = [p \in All |-> c[p].nret]
        /\ mem = [p \in All |-> "none"]
        /\ pend = [p \in All |-> None]
        /\ res = [p \in All |-> None]
        /\ att = [p \in All |-> 0]
        /\ fails = [p \in All |-> 0]
        /\ last = [p \in All |-> ""]
        /\ hit = [p \in All |-> FALSE]
        /\ taint = {}
        /\ act = <<"Init", "", "">>
=============================================================================
