---------------------------- MODULE SearchInt ----------------------------
(* Integer-only version of the three two-pointer scans (sorted_array_utils.py) for Apalache: the array x and the query
   list q are functions from a fixed index set to UNBOUNDED integers, so the bounded check below covers every strictly
   increasing integer array of length NX and every sorted integer query list of length NQ (queries scaled by 2 so that
   exact ties between two elements exist).  The scan is a small state machine (one step per loop iteration). *)
EXTENDS Integers

CONSTANTS
    \* @type: Int;
    NX,
    \* @type: Int;
    NQ

VARIABLES
    \* @type: Int -> Int;
    x,
    \* @type: Int -> Int;
    q,
    \* @type: Str;
    kind,
    \* @type: Bool;
    fill,
    \* @type: Int;
    xi,
    \* @type: Int;
    xn,
    \* @type: Int;
    li,
    \* @type: Int -> Int;
    idx,
    \* @type: Int;
    xval,
    \* @type: Str;
    pc

IX == 1..NX
IQ == 1..NQ

Init ==
    /\ x \in [IX -> Int] /\ q \in [IQ -> Int]
    /\ \A i \in IX : \A j \in IX : i < j => x[i] < x[j]
    /\ \A i \in IQ : \A j \in IQ : i < j => q[i] <= q[j]
    /\ \A i \in IX : x[i] % 2 = 0                       \* elements are even: odd queries lie strictly between, ties exist
    /\ kind \in {"lower", "higher", "closest"} /\ fill \in BOOLEAN
    /\ xi = 1 /\ xn = 2 /\ li = 1
    /\ idx = [k \in IQ |-> 0]
    /\ xval = x[1]
    /\ pc = "Pre"

Pre ==
    /\ pc = "Pre"
    /\ IF li <= NQ /\ ((kind = "lower" /\ q[li] < xval) \/ (kind # "lower" /\ q[li] <= xval))
       THEN /\ idx' = [idx EXCEPT ![li] = IF kind = "lower" /\ ~fill THEN -1 ELSE 0]
            /\ li' = li + 1 /\ pc' = "Pre"
       ELSE /\ pc' = "Main" /\ UNCHANGED <<idx, li>>
    /\ UNCHANGED <<x, q, kind, fill, xi, xn, xval>>

Main ==
    /\ pc = "Main"
    /\ IF li <= NQ THEN pc' = "Adv" ELSE pc' = "Done"
    /\ UNCHANGED <<x, q, kind, fill, xi, xn, li, idx, xval>>

Adv ==
    /\ pc = "Adv"
    /\ IF xn <= NX /\ ((kind = "lower" /\ x[xn] <= q[li]) \/ (kind # "lower" /\ x[xn] < q[li]))
       THEN /\ xval' = IF kind = "closest" THEN x[xn] ELSE xval
            /\ xn' = xn + 1 /\ xi' = xi + 1 /\ pc' = "Adv"
       ELSE /\ pc' = "Put" /\ UNCHANGED <<xval, xn, xi>>
    /\ UNCHANGED <<x, q, kind, fill, li, idx>>

Put ==
    /\ pc = "Put"
    /\ idx' = [idx EXCEPT ![li] =
                 IF kind = "lower" THEN xi - 1
                 ELSE IF kind = "higher" THEN (IF xn > NX THEN (IF fill THEN xi - 1 ELSE NX) ELSE xi)
                 ELSE IF xn > NX THEN xi - 1
                 ELSE IF q[li] - xval <= x[xn] - q[li] THEN xi - 1 ELSE xi]
    /\ li' = li + 1 /\ pc' = "Main"
    /\ UNCHANGED <<x, q, kind, fill, xi, xn, xval>>

Next == Pre \/ Main \/ Adv \/ Put \/ (pc = "Done" /\ UNCHANGED <<x, q, kind, fill, xi, xn, li, idx, xval, pc>>)

\* ---- the definition (property C10), 0-based results ----
Dist(a, b) == IF a >= b THEN a - b ELSE b - a
LowerOK(k) == IF \A i \in IX : x[i] > q[k] THEN idx[k] = (IF fill THEN 0 ELSE -1)
              ELSE /\ idx[k] + 1 \in IX /\ x[idx[k] + 1] <= q[k] /\ \A i \in IX : (x[i] <= q[k] => i <= idx[k] + 1)
HigherOK(k) == IF \A i \in IX : x[i] < q[k] THEN idx[k] = (IF fill THEN NX - 1 ELSE NX)
               ELSE /\ idx[k] + 1 \in IX /\ x[idx[k] + 1] >= q[k] /\ \A i \in IX : (x[i] >= q[k] => i >= idx[k] + 1)
ClosestOK(k) == /\ idx[k] + 1 \in IX
                /\ \A j \in IX : \/ Dist(x[idx[k] + 1], q[k]) < Dist(x[j], q[k])
                                 \/ (Dist(x[idx[k] + 1], q[k]) = Dist(x[j], q[k]) /\ idx[k] + 1 <= j)
AlgoCorrect == pc = "Done" => \A k \in IQ : IF kind = "lower" THEN LowerOK(k) ELSE IF kind = "higher" THEN HigherOK(k) ELSE ClosestOK(k)
NeverDone == pc # "Done"
CInit32 == NX = 3 /\ NQ = 2
CInit43 == NX = 4 /\ NQ = 3
CInit53 == NX = 5 /\ NQ = 3
=============================================================================
