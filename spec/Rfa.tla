-------------------------------- MODULE Rfa --------------------------------
(***************************************************************************)
(* The recreate-from-average strategies of rfa.py over exact rationals,    *)
(* written from the class documentation and structured like the code: the  *)
(* initial n-fold oversampling, one virtual interval on each side, one     *)
(* step per interval k (the body of the "move through each interval"       *)
(* loop), the final cut [n:-n].                                            *)
(*                                                                         *)
(* Documented deviations that the specification models as the code does:   *)
(*  - the Exp strategies leave the very last sample at the last average,   *)
(*    the Linear strategies write the last border value there;             *)
(*  - the adaptive factor is applied as gamma^s (documentation: 1/s);      *)
(*  - int(gamma*a/(1+gamma)) equals floor(r) for the exact ratio r except  *)
(*    when r is an integer, where floating point may land on r or r-1:     *)
(*    the specification allows both (WindowAllowed).                       *)
(***************************************************************************)
EXTENDS FunFit, Arrays

RfaStrategies == {"PiecewiseConstant", "LinearFixed", "LinearAdaptive", "ExpFixed", "ExpAdaptive", "CubicSpline"}
WindowStrategies == {"LinearFixed", "LinearAdaptive", "ExpFixed", "ExpAdaptive"}

\* transition window in samples: explicit a, or int(alpha * n); never below 2
WindowA(n, alpha, a) == LET v == IF a = -1 THEN RTrunc(RMul(alpha, RInt(n))) ELSE a
                        IN IF v < 2 THEN 2 ELSE v
Half(a) == a \div 2
LinPart(beta, al) == RTrunc(RMul(beta, RInt(al)))            \* b = int(beta * a_l)

\* initial oversampling and the two virtual intervals
XE(x, n) == ExtendLinspace(OversampleLinspace(x, n), n, "both", None, None)
YE(y, n) == ExtendConstant(OversamplePiecewise(y, n), n, "both")
Cut(s, n) == SubSeqR(s, n + 1, Len(s) - n)
NrIntervals(x, n) == ((Len(x) - 1) * n + 1 + 2 * n) \div n      \* full intervals of the extended arrays

(***************************************************************************)
(* Adaptive windows (LinearAdaptiveRFA.get_adaptive_transition_points).    *)
(* ye: extended piecewise-constant values; result index k = 0..K-1 is      *)
(* stored at position k+1.                                                 *)
(***************************************************************************)
Jump(ye, n, k) == RAbs(RSub(IvGet(ye, n, k, 0), IvGet(ye, n, k - 1, 0)))
Clip1(v, a) == IF v < 1 THEN 1 ELSE IF v > a THEN a ELSE v
\* exact ratios gamma*a/(1+gamma) and a/(1+gamma), gamma = (nom/denom)^s  (s a positive integer)
GammaOf(ye, n, k, s) == RPow(RDiv(Jump(ye, n, k + 1), Jump(ye, n, k)), s)
RatioL(ye, n, k, a, s) == LET g == GammaOf(ye, n, k, s) IN RDiv(RMul(g, RInt(a)), RAdd(One, g))
RatioR(ye, n, k, a, s) == LET g == GammaOf(ye, n, k, s) IN RDiv(RInt(a), RAdd(One, g))
\* int(min(max(r, 1), a)) for the exact r
WinOf(r, a) == IF RLt(r, One) THEN 1 ELSE IF RGe(r, RInt(a)) THEN a ELSE RTrunc(r)
\* the values floating point may produce: the exact one, or one less when r is an integer >= 2
WinSet(r, a) == {WinOf(r, a)} \cup (IF IsInt(r) /\ r[1] >= 2 /\ r[1] <= a THEN {r[1] - 1} ELSE {})

\* <<set of allowed a_l, set of allowed a_r>> of interval k (1 <= k <= K-2)
WindowSets(ye, n, k, a, s) ==
    LET nom == Jump(ye, n, k + 1)  den == Jump(ye, n, k)
    IN IF nom = Zero /\ den = Zero THEN <<{0}, {0}>>
       ELSE IF nom = Zero THEN <<{Half(a)}, {0}>>                 \* only the left side changes
       ELSE IF den = Zero THEN <<{0}, {Half(a)}>>                 \* only the right side changes
       ELSE <<WinSet(RatioL(ye, n, k, a, s), a), WinSet(RatioR(ye, n, k, a, s), a)>>
\* the exact-arithmetic windows, as sequences over k = 0..K-1 (virtual intervals get 1)
ExactWindows(ye, n, K, a, s) ==
    << [p \in 1..K |-> IF p = 1 \/ p = K THEN 1
                       ELSE LET ws == WindowSets(ye, n, p - 1, a, s)[1] IN CHOOSE v \in ws : \A u \in ws : u <= v],
       [p \in 1..K |-> IF p = 1 \/ p = K THEN 1
                       ELSE LET ws == WindowSets(ye, n, p - 1, a, s)[2] IN CHOOSE v \in ws : \A u \in ws : u <= v] >>
WindowsAllowed(ye, n, K, a, s, als, ars) ==
    /\ Len(als) = K /\ Len(ars) = K
    /\ als[1] = 1 /\ ars[1] = 1 /\ als[K] = 1 /\ ars[K] = 1
    /\ \A p \in 2..(K - 1) : LET ws == WindowSets(ye, n, p - 1, a, s)
                             IN als[p] \in ws[1] /\ ars[p] \in ws[2]

(***************************************************************************)
(* One interval step.  xe, ye: extended inputs; z: result so far; al, ar:  *)
(* windows of this interval; arPrev / alNext: right window of interval k-1 *)
(* and left window of interval k+1 (equal to ar / al for fixed windows);   *)
(* bl, br: linear parts; e: exponent; exp: TRUE for the Exp strategies.    *)
(***************************************************************************)
Step(xe, ye, z, n, k, al, ar, arPrev, alNext, bl, br, e, exp) ==
    LET X(kk, i) == IvGet(xe, n, kk, i)
        Yv(kk)   == IvGet(ye, n, kk, 0)
        y0 == Yv(k)
        z0 == IF arPrev = 0 /\ al = 0 THEN Yv(k - 1)
              ELSE LinFit(X(k, 0), X(k, -arPrev), Yv(k - 1), X(k, al), y0)
        z1 == LinFit(X(k + 1, 0), X(k, n - ar), y0, X(k + 1, alNext), Yv(k + 1))   \* used only when ar > 0
        zlb == IF bl = 0 THEN z0 ELSE LinFit(X(k, bl), X(k, 0), z0, X(k, al), y0)
        zrb == IF br = 0 THEN z1 ELSE LinFit(X(k, n - br), X(k, n - ar), y0, X(k + 1, 0), z1)
    IN [f \in 1..Len(z) |->
          LET i == (f - 1) - k * n
          IN IF ~exp
             THEN IF i \in (n - ar + 1)..n THEN LinFit(X(k, i), X(k, n - ar), y0, X(k, n), z1)
                  ELSE IF i \in 0..(al - 1) THEN LinFit(X(k, i), X(k, 0), z0, X(k, al), y0)
                  ELSE z[f]
             ELSE IF i \in (n - br)..(n - 1) THEN LinFit(X(k, i), X(k, n - br), zrb, X(k, n), z1)
                  ELSE IF i \in (n - ar)..(n - br - 1) THEN ExpLinFit(X(k, i), X(k, n - ar), y0, X(k, n - br), zrb, e)
                  ELSE IF i \in bl..(al - 1) THEN LinExpXYFit(X(k, i), X(k, bl), zlb, X(k, al), y0, e)
                  ELSE IF i \in 0..(bl - 1) THEN LinFit(X(k, i), X(k, 0), z0, X(k, bl), zlb)
                  ELSE z[f]]

RECURSIVE Loop(_, _, _, _, _, _, _, _, _, _)
\* als, ars: windows per interval (position k+1); beta: linear share; e: exponent; exp: Exp strategy?
Loop(xe, ye, z, n, k, als, ars, beta, e, exp) ==
    IF k > Len(als) - 2 THEN z
    ELSE Loop(xe, ye,
              Step(xe, ye, z, n, k, als[k + 1], ars[k + 1], ars[k], als[k + 2],
                   IF exp THEN LinPart(beta, als[k + 1]) ELSE 0, IF exp THEN LinPart(beta, ars[k + 1]) ELSE 0, e, exp),
              n, k + 1, als, ars, beta, e, exp)

\* <<xs, zs>> for given per-interval windows
WithWindows(x, y, n, als, ars, beta, e, exp) ==
    LET xe == XE(x, n)  ye == YE(y, n)
    IN << Cut(xe, n), Cut(Loop(xe, ye, ye, n, 1, als, ars, beta, e, exp), n) >>

FixedWindows(x, n, a) == LET K == NrIntervals(x, n) IN << Rep(Half(a), K), Rep(Half(a), K) >>

PiecewiseConstant(x, y, n) == << OversampleLinspace(x, n), OversamplePiecewise(y, n) >>
LinearFixed(x, y, n, a) ==
    LET w == FixedWindows(x, n, a) IN WithWindows(x, y, n, w[1], w[2], Zero, One, FALSE)
ExpFixed(x, y, n, a, beta, e) ==
    LET w == FixedWindows(x, n, a) IN WithWindows(x, y, n, w[1], w[2], beta, e, TRUE)
LinearAdaptiveW(x, y, n, als, ars) == WithWindows(x, y, n, als, ars, Zero, One, FALSE)
ExpAdaptiveW(x, y, n, als, ars, beta, e) == WithWindows(x, y, n, als, ars, beta, e, TRUE)
LinearAdaptive(x, y, n, a, s) ==
    LET w == ExactWindows(YE(y, n), n, NrIntervals(x, n), a, s) IN LinearAdaptiveW(x, y, n, w[1], w[2])
ExpAdaptive(x, y, n, a, s, beta, e) ==
    LET w == ExactWindows(YE(y, n), n, NrIntervals(x, n), a, s) IN ExpAdaptiveW(x, y, n, w[1], w[2], beta, e)

\* every power the Exp step needs is defined for exponent e (integer, or half-integer on square ratios)
ExpDefined(x, n, als, ars, beta, e) ==
    e[2] = 1 \/
    LET xe == XE(x, n)
        X(kk, i) == IvGet(xe, n, kk, i)
    IN \A k \in 1..(Len(als) - 2) :
         LET al == als[k + 1]  ar == ars[k + 1]
             bl == LinPart(beta, al)  br == LinPart(beta, ar)
         IN /\ \A i \in bl..(al - 1) : PowDefined(RSub(One, TFrac(X(k, i), X(k, bl), X(k, al))), e)
            /\ \A i \in (n - ar)..(n - br - 1) : PowDefined(TFrac(X(k, i), X(k, n - ar), X(k, n - br)), e)
=============================================================================
