------------------------------ MODULE Arrays -------------------------------
(***************************************************************************)
(* Array helpers, integration rules, the interval view and block averaging *)
(* (sorted_array_utils.py, interval.py, process.average) over exact        *)
(* rationals.  Sequences are 1-based; indices handed over from / to the    *)
(* implementation are 0-based and converted at the point of use.           *)
(* NaN (padding of the 2-D interval view) is the token <<0, 0>>; None (an  *)
(* omitted optional argument) is the token <<0, -1>>.  Neither is a        *)
(* normalised rational, so they never equal a number.                      *)
(***************************************************************************)
EXTENDS Rat, FiniteSets

NaN  == <<0, 0>>
None == <<0, -1>>
IsNum(v) == v[2] > 0

SubSeqR(s, a, b) == IF b < a THEN <<>> ELSE [i \in 1..(b - a + 1) |-> s[a + i - 1]]
Last(s) == s[Len(s)]
Rep(v, n) == [i \in 1..n |-> v]

\* linspace(a, b, n+1)[k] for k = 0..n : a + (b - a) * k / n
Lin(a, b, k, n) == RAdd(a, RMul(RSub(b, a), RNorm(k, n)))

(***************************************************************************)
(* Oversampling: every original element sits at every num-th position.     *)
(***************************************************************************)
OversampleLinspace(a, num) ==
    IF num < 2 THEN a
    ELSE [p \in 1..((Len(a) - 1) * num + 1) |->
            LET i == (p - 1) \div num + 1   j == (p - 1) % num
            IN IF i = Len(a) THEN a[i] ELSE Lin(a[i], a[i + 1], j, num)]

OversamplePiecewise(a, num) ==
    IF num < 2 THEN a
    ELSE [p \in 1..((Len(a) - 1) * num + 1) |-> a[(p - 1) \div num + 1]]

(***************************************************************************)
(* Extension by n elements per requested side.                             *)
(***************************************************************************)
Dirs == {"both", "left", "right"}

ExtendLinspace(a, n, dir, lstart, rstop) ==
    LET ls == IF lstart = None THEN RSub(RMul(RInt(2), a[1]), a[n + 1]) ELSE lstart
        lft == IF dir \in {"both", "left"} THEN [k \in 1..n |-> Lin(ls, a[1], k - 1, n)] ELSE <<>>
        b  == lft \o a
        rs == IF rstop = None THEN RSub(RMul(RInt(2), Last(b)), b[Len(b) - n]) ELSE rstop
        rgt == IF dir \in {"both", "right"} THEN [k \in 1..n |-> Lin(Last(b), rs, k, n)] ELSE <<>>
    IN b \o rgt

ExtendConstant(a, n, dir) ==
    (IF dir \in {"both", "left"} THEN Rep(a[1], n) ELSE <<>>) \o a \o
    (IF dir \in {"both", "right"} THEN Rep(Last(a), n) ELSE <<>>)

\* <<x', y'>>: x continues by its last step, y by its last (periodic: first) value
AppendOneSample(x, y, periodic) ==
    << Append(x, RSub(RMul(RInt(2), Last(x)), x[Len(x) - 1])),
       Append(y, IF periodic THEN y[1] ELSE Last(y)) >>

(***************************************************************************)
(* Integration rules (one value per gap) and range sums.                   *)
(***************************************************************************)
RectIntegral(x, y) == [i \in 1..(Len(x) - 1) |-> RMul(y[i], RSub(x[i + 1], x[i]))]
TrapIntegral(x, y) == [i \in 1..(Len(x) - 1) |->
                         RMul(RMul(RAdd(y[i], y[i + 1]), <<1, 2>>), RSub(x[i + 1], x[i]))]
Rules == {"trapezoid", "rectangle"}
Integral(x, y, rule) == IF rule = "trapezoid" THEN TrapIntegral(x, y) ELSE RectIntegral(x, y)
TotalIntegral(x, y, rule) == RSum(Integral(x, y, rule))

\* idx: 0-based, non-decreasing; result[k] = sum of a[idx[k] .. idx[k+1]-1] (0-based, Python slice)
SumOverIndices(a, idx) ==
    [k \in 1..(Len(idx) - 1) |-> RSum(SubSeqR(a, idx[k] + 1, idx[k + 1]))]

(***************************************************************************)
(* Interval view: [i, j] is flat index i*n + j (0-based; a negative flat   *)
(* index counts from the end, as in Python).                               *)
(***************************************************************************)
Flat(len, n, i, j) == LET f == i * n + j IN IF f < 0 THEN len + f ELSE f
IvGet(a, n, i, j) == a[Flat(Len(a), n, i, j) + 1]
IvSet(a, n, i, j, v) == [a EXCEPT ![Flat(Len(a), n, i, j) + 1] = v]
\* the view also accepts a plain (flat, possibly negative) index
FlatK(len, k) == IF k < 0 THEN len + k ELSE k
IvGetFlat(a, k) == a[FlatK(Len(a), k) + 1]
IvSetFlat(a, k, v) == [a EXCEPT ![FlatK(Len(a), k) + 1] = v]
IvInRange(a, n, i, j) == Flat(Len(a), n, i, j) \in 0..(Len(a) - 1)
NrFullIntervals(a, n) == Len(a) \div n
NrRows(a, n) == (Len(a) + n - 1) \div n

\* row-by-row layout, NaN padding
To2D(a, n) == [r \in 1..NrRows(a, n) |->
                 [c \in 1..n |-> LET f == (r - 1) * n + c IN IF f <= Len(a) THEN a[f] ELSE NaN]]
\* each row additionally ends with the first value of the next row (NaN for the last row)
To2DClosed(a, n, dropLast) ==
    LET t == To2D(a, n)
        full == [r \in 1..Len(t) |-> Append(t[r], IF r < Len(t) THEN t[r + 1][1] ELSE NaN)]
    IN IF dropLast THEN SubSeqR(full, 1, Len(full) - 1) ELSE full

\* mean of the numbers of a row (padding ignored)
RowMean(row) ==
    LET nums == {c \in 1..Len(row) : IsNum(row[c])}
        vals == [c \in 1..Len(row) |-> IF IsNum(row[c]) THEN row[c] ELSE Zero]
    IN RDiv(RSum(vals), RInt(Cardinality(nums)))

\* <<first abscissa of each row, mean of each row>>
Average(x, y, n) ==
    LET tx == To2D(x, n)  ty == To2D(y, n)
    IN << [r \in 1..Len(tx) |-> tx[r][1]], [r \in 1..Len(ty) |-> RowMean(ty[r])] >>

(***************************************************************************)
(* Theorems checked on the bounded instance (MC_Arrays).                   *)
(***************************************************************************)
\* averaging an n-fold piecewise-constant oversampling returns the input
RoundTrip(x, y, n) ==
    n >= 2 => LET av == Average(OversampleLinspace(x, n), OversamplePiecewise(y, n), n)
              IN av[1] = x /\ av[2] = y
EveryNth(a, n) ==
    n >= 2 => LET o == OversampleLinspace(a, n)  p == OversamplePiecewise(a, n)
              IN /\ Len(o) = (Len(a) - 1) * n + 1 /\ Len(p) = Len(o)
                 /\ \A i \in 1..Len(a) : o[(i - 1) * n + 1] = a[i] /\ p[(i - 1) * n + 1] = a[i]
ExtendKeepsMiddle(a, n, dir) ==
    LET e == ExtendConstant(a, n, dir)
        k == IF dir \in {"both", "left"} THEN n ELSE 0
    IN /\ Len(e) = Len(a) + (IF dir = "both" THEN 2 * n ELSE n)
       /\ SubSeqR(e, k + 1, k + Len(a)) = a
=============================================================================
