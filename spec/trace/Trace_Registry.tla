--------------------------- MODULE Trace_Registry ----------------------------
(***************************************************************************)
(* Judge of recorded calls of the real traffic_weaver.datasets.load_dataset*)
(* (property C18).  Events are independent calls made by harness/c18.py    *)
(* with a fake network; the "distinct" clauses compare an event with the   *)
(* other events of the same file, so one TLC run sees all of them.         *)
(*                                                                         *)
(* event: [fn |-> "load", id, name (as spelled), canon (documented name or *)
(*   ""), doc ("remote" | "bundled" | "unknown"), unpack, mode, outcome    *)
(*   ("ok" | exception class), urls (requested, in order), dlnames (base   *)
(*   names of the download targets), created (files that appeared under    *)
(*   the directory named by TRAFFIC_WEAVER_DATA, relative to it),          *)
(*   home_ok (nothing appeared in the default ~/.traffic-weaver-data),     *)
(*   ret (<<form, whose>>: form "array" | "pair" | "other", whose = name   *)
(*   of the dataset whose genuine payload parses to the returned data),    *)
(*   and for bundled: shape, dtype, x, y (limbs), csvx, csvy (rationals)]  *)
(* mode: "fresh"   first load into an empty data home                      *)
(*       "cached"  second load into the same home (other unpack value)     *)
(*       "after"   first load of this name into a home where another       *)
(*                 dataset (field prev) has just been loaded               *)
(*       "foreign" empty home, the network serves another dataset's        *)
(*                 genuine payload at this dataset's URL                   *)
(* Walks the events in chunks (as Trace_Fn) and prints one total verdict   *)
(* <<"V", id, {failing clauses}>> per event.                               *)
(***************************************************************************)
EXTENDS Json, IOUtils, TLC, JCommon

Trace == JsonDeserialize(IOEnv.TRACE_FILE)
Chunk == atoi(IOEnv.TRACE_CHUNK)
N     == Len(Trace)
VARIABLE l

TraceInit == l = 0
TraceNext == \/ /\ l = 0
                /\ l' \in {1 + c * Chunk : c \in 0..((N - 1) \div Chunk)}
             \/ /\ l > 0 /\ l < N /\ Mod(l, Chunk) # 0
                /\ l' = l + 1

\* the canonical first loads: documented spelling, empty home, unpack off
Canonical == {i \in 1..N : /\ Trace[i].fn = "load" /\ Trace[i].doc = "remote" /\ Trace[i].mode = "fresh"
                           /\ Trace[i].name = Trace[i].canon /\ ~Trace[i].unpack /\ Trace[i].outcome = "ok"
                           /\ ~Trace[i].neg}          \* (a negative control must not disturb the real events)
Others(e) == {i \in Canonical : Trace[i].canon # e.canon}
SeqSet(s) == {s[k] : k \in 1..Len(s)}
Form(e)   == IF e.unpack THEN "pair" ELSE "array"

V_remote(e) ==
    IF e.outcome = "ValueError" THEN {"C18.resolves"}
    ELSE IF e.mode = "foreign" THEN Fail(e.outcome # "OSError", "C18.distinct_checksum")
    ELSE IF e.outcome # "ok" THEN {"C18.load_ok"}
    ELSE IF e.mode = "cached"
         THEN Fail(e.ret # <<Form(e), e.canon>>, "C18.own_data")
              \cup Fail(~e.home_ok, "C18.data_home")
    ELSE \* fresh / after: its own download, into its own slot, returning its own data
         Fail(Len(e.urls) # 1, "C18.own_download")
         \cup Fail(Len(e.created) # 1, "C18.own_slot")
         \cup Fail(e.ret # <<Form(e), e.canon>>, "C18.own_data")
         \cup Fail(~e.home_ok, "C18.data_home")
         \cup (IF e.mode = "fresh"
               THEN Fail(\E i \in Others(e) : SeqSet(Trace[i].urls) \cap SeqSet(e.urls) # {}, "C18.distinct_url")
                    \cup Fail(\E i \in Others(e) : SeqSet(Trace[i].created) \cap SeqSet(e.created) # {},
                              "C18.distinct_slot")
                    \cup Fail(\E i \in Others(e) : SeqSet(Trace[i].dlnames) \cap SeqSet(e.dlnames) # {},
                              "C18.distinct_remote_file")
               ELSE {})

V_bundled(e) ==
    IF e.outcome = "ValueError" THEN {"C18.resolves"}
    ELSE IF e.outcome # "ok" THEN {"C18.load_ok"}
    ELSE Fail(e.ret[1] # Form(e), "C18.bundled_form")
         \cup Fail(~(Len(e.shape) = 2 /\ e.shape[2] = 2 /\ e.shape[1] = Len(e.x) /\ Len(e.x) = Len(e.y)
                     /\ Len(e.x) >= 1 /\ e.dtype = "float64"), "C18.bundled_shape")
         \cup Fail(~(AllFinite(e.x) /\ AllFinite(e.y)), "C18.bundled_finite")
         \cup Fail(~FStrictlyIncreasing(e.x), "C18.bundled_increasing")
         \cup Fail(~(AllFinite(e.x) /\ AllFinite(e.y) /\ NearSeq(e.x, e.csvx, Tol) /\ NearSeq(e.y, e.csvy, Tol)),
                   "C18.bundled_values")
         \cup Fail(Len(e.urls) # 0 \/ Len(e.created) # 0, "C18.bundled_offline")

V_unknown(e) == Fail(e.outcome # "ValueError", "C18.unknown_raises")

\* the checksum routine of the loader against hashlib (hex digests recorded side by side)
V_sha(e) == Fail(e.got # e.want, "C18.sha256")

(* ---- where the cache lives (DataHome.tla): true trace validation, the specification's state is carried along the program.
   event: [fn |-> "home", envset, steps |-> sequence of [act, outcome, ret, dl, exists, cached, elsewhere]]
   C18's last sentence is the instance "remote load without a directory argument while TRAFFIC_WEAVER_DATA is set"; everything
   else (argument > environment > default, creation, clearing, "~" expansion, cache hits) is beyond the listed properties: impl.* *)
DH == INSTANCE DataHome WITH envset <- FALSE, exists <- {}, cached <- {}
AsSet(t) == {t[i] : i \in 1..Len(t)}
RECURSIVE HomeWalk(_, _, _)
HomeWalk(e, j, s) ==
    IF j > Len(e.steps) THEN {}
    ELSE LET st == e.steps[j]
             r  == DH!Do(s, st.act)
             s2 == r[1]
             dirsOK == AsSet(st.exists) = s2.exists /\ AsSet(st.cached) = s2.cached /\ Len(st.elsewhere) = 0
             retOK  == (st.act.k # "get" \/ st.ret = r[2]) /\ (st.act.k # "fetch" \/ (st.ret = "data" /\ (st.dl >= 1) = r[3]))
             c18    == st.act.k = "fetch" /\ st.act.arg = "none" /\ s.envset
         IN IF st.outcome # "ok" THEN {IF c18 THEN "C18.load_ok" ELSE "impl.home_call_failed." \o st.act.k}
            ELSE Fail(c18 /\ ~("env" \in AsSet(st.cached) /\ AsSet(st.cached) \ {"env"} = s.cached \ {"env"}
                               /\ AsSet(st.exists) \ {"env"} = s.exists \ {"env"} /\ Len(st.elsewhere) = 0), "C18.data_home") \cup
                 Fail(~dirsOK \/ ~retOK, "impl.home_step." \o st.act.k) \cup
                 (IF dirsOK THEN HomeWalk(e, j + 1, s2) ELSE {})
V_home(e) == HomeWalk(e, 1, [envset |-> e.envset, exists |-> {}, cached |-> {}])

Verdict(e) ==
    CASE e.fn = "load" /\ e.doc = "remote"  -> V_remote(e)
      [] e.fn = "load" /\ e.doc = "bundled" -> V_bundled(e)
      [] e.fn = "load" /\ e.doc = "unknown" -> V_unknown(e)
      [] e.fn = "sha" -> V_sha(e)
      [] e.fn = "home" -> V_home(e)
      [] e.fn = "desc" -> Fail(e.got # e.want \/ Len(e.tables) < 4, "impl.description")
      [] OTHER -> {"machinery.unknown_fn"}

Judge == l > 0 => PrintT(<<"V", Trace[l].id, Verdict(Trace[l])>>)
=============================================================================
