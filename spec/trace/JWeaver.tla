------------------------------- MODULE JWeaver ------------------------------
(* Trace judge for recorded Weaver histories (C08 reference tracking, C09 well-formedness / caller data / original,
   C20 refusals with frame condition).  One event = one history: the start series, the observation after construction
   and one record per call (operation with arguments, outcome class, the six projected series after the call, container
   kinds, bitwise frame / caller / original flags computed from snapshots, and F_op(previous reference) obtained by
   calling the standalone function on the previously recorded reference).
   The specification's state is carried along the history (Weaver!Apply); the clauses of C08 / C09 / C20 are evaluated on
   the recorded values only, equality with the specification's state is reported as impl.* (drift, not a violation). *)
EXTENDS JCommon, Weaver

ObsEq(a, b) == a = b                                   \* recorded limb sequences, exact
PairNear(ax, ay, bx, by, tol) == NearSeqFF(ax, bx, tol) /\ NearSeqFF(ay, by, tol)

StepClauses(st, prev, w, w2, op) ==
    Fail(~w2.reshaped /\ ~PairNear(st.x, st.y, st.rx, st.ry, Tol), "C08.working_is_reference." \o op.k) \cup
    Fail(op.k \in DomainOps /\ ~PairNear(st.rx, st.ry, st.frx, st.fry, Tol), "C08.reference_tracks." \o op.k) \cup
    Fail(op.k \in ReshapeOps \cup ReadOps /\ ~(ObsEq(st.rx, prev.rx) /\ ObsEq(st.ry, prev.ry)), "C08.reshape_keeps_reference." \o op.k) \cup
    \* "... and equal the original with exactly those transformations applied": for the purely arithmetic domain operations
    \* (no bound that could tie with a sample in floating point) the recorded reference is also compared with the
    \* specification's own state, so a fault inside the shared standalone function does not cancel out of C08
    Fail(op.k \in {"repeat", "append", "shift_x", "shift_y", "scale_x", "scale_y", "normalize_x", "normalize_y"}
         /\ ~(SeqOK(st.rx, w2.rx, 20) /\ SeqOK(st.ry, w2.ry, 20)), "C08.reference_is_transformed_original." \o op.k) \cup
    Fail(st.kinds # "ok" \/ Len(st.x) # Len(st.y) \/ ~AllFinite(st.x) \/ ~AllFinite(st.y) \/ ~FStrictlyIncreasing(st.x), "C09.wellformed." \o op.k) \cup
    \* (a caller that writes through get() may be writing into its own array: the constructor keeps float arrays as they are)
    Fail(~st.caller /\ op.k # "poke", "C09.caller_modified." \o op.k) \cup
    Fail(op.k = "poke" /\ ~(ObsEq(st.rx, prev.rx) /\ ObsEq(st.ry, prev.ry)), "C08.reshape_keeps_reference.poke") \cup
    Fail(op.k \notin {"normalize_x", "normalize_y"} /\ ~st.orig_same, "C09.original_changed." \o op.k) \cup
    Fail(op.k = "restore_original" /\ ~(PairNear(st.rx, st.ry, st.ox, st.oy, Tol) /\ PairNear(st.x, st.y, st.ox, st.oy, Tol)), "C09.restore_state") \cup
    Fail(~(SeqOK(st.x, w2.x, 20) /\ SeqOK(st.rx, w2.rx, 20) /\ SeqOK(st.ry, w2.ry, 20) /\ SeqOK(st.ox, w2.ox, 20) /\ SeqOK(st.oy, w2.oy, 20)
           /\ (w2.yopaque \/ SeqOK(st.y, w2.y, 50))), "impl.state." \o op.k) \cup
    \* beyond the listed properties: values returned by the read-only operations
    Fail(op.k \in {"len", "to_2d_array", "slice_index", "slice_value", "to_function"} /\ ~w.yopaque
         /\ ~SeqOK(st.ret, ReadResult(w, op), IF op.k = "to_function" THEN 500 ELSE 50), "impl.read." \o op.k)

(* A call that RAISES although the request respects every documented precondition (e.g. a cubic / spline interpolation that SciPy
   refuses on fewer than four samples) must still leave a well-formed object, the caller's arrays and the original alone: the
   state-only clauses of C09, evaluated on the state recorded after the failed call (seed C09k: the new grid was installed
   before the values were computed, so a late failure left len(x) # len(y)). *)
StateOnlyClauses(st, op) ==
    Fail(st.kinds # "ok" \/ Len(st.x) # Len(st.y) \/ ~AllFinite(st.x) \/ ~AllFinite(st.y) \/ ~FStrictlyIncreasing(st.x), "C09.wellformed." \o op.k) \cup
    Fail(~st.caller /\ op.k # "poke", "C09.caller_modified." \o op.k) \cup
    Fail(op.k \notin {"normalize_x", "normalize_y"} /\ ~st.orig_same, "C09.original_changed." \o op.k)

(* C08, last sentence: recreate + match after any history of domain operations reproduces the TRANSFORMED averages, i.e. the
   recorded reference.  Judged on the recorded values like C02 (JPipeline): inside a reference interval the recreated grid is
   uniform, so the mean under the target rule is a (half-weighted at the ends for the trapezoid rule) sum of the n samples. *)
F4w(f) == f[1] * f[2]
RECURSIVE SumF4w(_, _, _)
SumF4w(s, a, b) == IF a > b THEN 0 ELSE F4w(s[a]) + SumF4w(s, a + 1, b)
SmallVals(s) == \A i \in 1..Len(s) : IsFinite(s[i]) /\ s[i][2] < 10000000          \* |v| < 1000: sums stay in 32 bits
PipelineAfterHistoryOK(st, n, trule) ==
    \A k \in 1..(Len(st.rx) - 1) :
        LET lo == (k - 1) * n + 1  hi == k * n + 1  target == F4w(st.ry[k])
        IN IF trule = "rectangle"
           THEN Abs(SumF4w(st.y, lo, hi - 1) - n * target) <= 2 * n + 2
           ELSE Abs(F4w(st.y[lo]) + F4w(st.y[hi]) + 2 * SumF4w(st.y, lo + 1, hi - 1) - 2 * n * target) <= 4 * n + 4
PipelineClause(e, j, wprev2) ==
    LET st == e.steps[j]  op == st.op
    IN IF /\ op.k = "integral_match" /\ op.rrule = "rectangle" /\ j > 1
          /\ e.steps[j - 1].op.k = "recreate" /\ e.steps[j - 1].outcome = "ok"
          /\ Len(st.x) = (Len(st.rx) - 1) * e.steps[j - 1].op.n + 1 /\ Len(st.y) = Len(st.x) /\ e.steps[j - 1].op.n <= 64
          /\ SmallVals(st.y) /\ SmallVals(st.ry)
          \* the recreated grid is the n-fold refinement of the reference grid (the series was not reshaped before)
          /\ \A k \in 1..Len(st.rx) : NearFF(st.x[(k - 1) * e.steps[j - 1].op.n + 1], st.rx[k], Tol)
       THEN IF PipelineAfterHistoryOK(st, e.steps[j - 1].op.n, op.trule) THEN {} ELSE {"C08.pipeline_after_history"}
       ELSE {}

RECURSIVE WH(_, _, _, _)
WH(e, j, w, prev) ==
    IF j > Len(e.steps) THEN {}
    ELSE LET st == e.steps[j]  op == st.op
         IN IF OutOfScope(w, op)                         \* outside a documented precondition: the rest is not judged ...
            THEN \* ... except that a resampling request on a 2- or 3-sample series which the back end refuses (no documented minimum
                 \* length exists) must leave a well-formed object behind
                 \* (and, generally: whatever request ends with an exception, the object it leaves behind is judged)
                 IF Len(w.x) >= 2 /\ st.outcome # "ok" /\ ~Rejects(w, op)
                 THEN StateOnlyClauses(st, op) ELSE {}
            ELSE IF Rejects(w, op)
            THEN \* the missing-argument request is not one of the classes C20 enumerates: its exception class is drift only
                 Fail(st.outcome # "ValueError" /\ op.k # "interpolate_none", "C20.outcome." \o op.k) \cup
                 Fail(st.outcome \notin {"ValueError", "TypeError"} /\ op.k = "interpolate_none", "impl.outcome." \o op.k) \cup
                 Fail(st.outcome = "TypeError" /\ op.k = "interpolate_none" /\ ~st.frame, "C20.frame." \o op.k) \cup
                 Fail(st.outcome = "ValueError" /\ ~st.frame, "C20.frame." \o op.k) \cup
                 (IF st.outcome = "ValueError" /\ st.frame THEN WH(e, j + 1, w, prev) ELSE {})
            \* a caller's write into a returned array that is not writable (read-only views of pandas data) or not float-typed
            \* fails in the caller's own code: nothing of the library to judge, the rest of the history is not judged
            ELSE IF op.k = "poke" /\ st.outcome # "ok" THEN {}
            ELSE IF st.outcome # "ok" THEN {"impl.valid_operation_failed." \o op.k} \cup StateOnlyClauses(st, op)
            ELSE LET w2 == Apply(w, op)
                     cl == StepClauses(st, prev, w, w2, op) \cup PipelineClause(e, j, w)
                 IN \* once the recorded state differs from the specification's (drift, e.g. a bound that coincides with a
                    \* non-dyadic sample and is resolved differently in floating point) the scope / refusal decisions of
                    \* the specification no longer apply to the real object: the rest of the history is not judged
                    IF "impl.state." \o op.k \in cl THEN cl ELSE cl \cup WH(e, j + 1, w2, st)

V_whist(e) ==
    LET w0 == New(e.start.x, e.start.y)
    IN Fail(e.init.kinds # "ok" \/ ~PairNear(e.init.x, e.init.y, e.init.rx, e.init.ry, 0) \/ ~PairNear(e.init.x, e.init.y, e.init.ox, e.init.oy, 0)
            \/ ~SeqOK(e.init.x, w0.x, Tol) \/ ~SeqOK(e.init.y, w0.y, Tol), "C08.construct") \cup
       WH(e, 1, w0, e.init)

(* C09, last clause: after restore_original the object behaves like a newly constructed one on get_original(): the same
   suffix program was run on the restored object and on a fresh one; the two recorded state sequences must agree. *)
V_wrestore(e) ==
    Fail(Len(e.a) # Len(e.b) \/ \E j \in 1..Len(e.a) :
            \/ e.a[j].outcome # e.b[j].outcome
            \/ ~PairNear(e.a[j].x, e.a[j].y, e.b[j].x, e.b[j].y, 50)
            \/ ~PairNear(e.a[j].rx, e.a[j].ry, e.b[j].rx, e.b[j].ry, 50)
            \/ ~PairNear(e.a[j].ox, e.a[j].oy, e.b[j].ox, e.b[j].oy, 50), "C09.restore_bisimilar")

(* C20: refusals outside the Weaver object: constructor length mismatch, non-(N,2) array, unknown dataset / search
   strategy / integration rule / interpolation method names *)
V_reject_misc(e) == IF e.kind = "no_sampler" THEN Fail(e.outcome # "ValueError", "impl.outcome.no_sampler")   \* not a class C20 lists
                    ELSE Fail(e.outcome # "ValueError", "C20." \o e.kind)
=============================================================================
