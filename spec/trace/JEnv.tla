-------------------------------- MODULE JEnv --------------------------------
(* Judges of the two environment-driven operations: Gaussian noise (C15; the generator is an environment step whose
   arguments and draw are recorded at the numpy.random.normal boundary) and spline smoothing (C16; FITPACK is an
   environment step constrained by the smoothing condition). *)
EXTENDS JCommon, FunFit

(* ---- C15 ---------------------------------------------------------------------------------------------------------
   event: [fn |-> "noise", a (signal, rationals), mode ("db" | "linear" | "std"), snr (sequence of rationals: one element =
           scalar, Len(a) elements = per sample; for "db" the decibel values), std (rational), calls (sequence of recorded
           generator calls [loc, scale (sequence of recorded values), shape_ok]), draw (the values the recorder returned,
           rationals), out (recorded result), outcome, via ("function" | "weaver"), wx_same (Weaver: x bitwise unchanged),
           rep_same (two runs under the same real NumPy seed are identical), rep_differs]                                *)
MeanSq(a) == RDiv(RSum([i \in 1..Len(a) |-> RMul(a[i], a[i])]), RInt(Len(a)))
\* SNR as a ratio: decibel values are multiples of 10 in -30..30 (10^(snr/10) rational), linear values as given
Pow10(k) == IF k >= 0 THEN RInt(10 ^ k) ELSE <<1, 10 ^ (0 - k)>>
SnrRatio(mode, v) == IF mode = "db" THEN Pow10(v[1] \div 10) ELSE v
\* the documented scale^2 for sample i
Scale2(e, i) == RDiv(MeanSq(e.a), SnrRatio(e.mode, IF Len(e.snr) = 1 THEN e.snr[1] ELSE e.snr[i]))
\* recorded scale f against the rational q = scale^2: exactly when q is a perfect square, otherwise bracketed in 1e-3 units
ScaleOK(f, q) ==
    IF IsSquareRat(q) THEN Near(f, RSqrt(q), 20)
    ELSE \* bracket floor(scale * U) between the integer square roots of q * U^2, U chosen so that everything stays in 32 bits
         LET Fits(u) == q[1] < 2000000000 \div (u * u) /\ (f[1] * f[2]) \div (10000 \div u) <= 40000
             U  == IF Fits(1000) THEN 1000 ELSE IF Fits(100) THEN 100 ELSE IF Fits(10) THEN 10 ELSE 1
             s  == (f[1] * f[2]) \div (10000 \div U)
             r  == RMul(q, RInt(U * U))
             lo == r[1] \div r[2]
             hi == lo + (IF Mod(r[1], r[2]) = 0 THEN 0 ELSE 1)
         IN IF ~IsFinite(f) THEN FALSE
            ELSE IF s > 40000 THEN TRUE                         \* outside the bracket arithmetic: not judged
            ELSE (s - 1) * (s - 1) <= hi /\ lo <= (s + 2) * (s + 2)
V_noise(e) ==
    IF e.outcome # "ok" THEN {"C15.outcome"}
    ELSE LET c == e.calls[1]
         IN Fail(Len(e.calls) # 1, "C15.one_draw") \cup
            (IF Len(e.calls) # 1 THEN {} ELSE
             Fail(~Near(c.loc, Zero, 0), "C15.zero_mean") \cup
             Fail(~c.shape_ok, "C15.draw_shape") \cup
             Fail(e.mode = "std" /\ (Len(c.scale) # 1 \/ ~Near(c.scale[1], e.std, Tol)), "C15.std_fallback") \cup
             Fail(e.mode # "std" /\ (Len(c.scale) # Len(e.snr) \/ \E i \in 1..Len(c.scale) : ~ScaleOK(c.scale[i], Scale2(e, i))), "C15.scale_rule")) \cup
            Fail(Len(e.out) # Len(e.a) \/ \E i \in 1..Len(e.a) : ~Near(e.out[i], RAdd(e.a[i], e.draw[i]), Tol), "C15.additive") \cup
            Fail(e.via = "weaver" /\ ~e.wx_same, "C15.x_unchanged") \cup
            Fail(~e.rep_same, "C15.reproducible") \cup
            Fail(e.via = "function" /\ ~e.in_same, "impl.noise_input_modified")

(* ---- C16 ---------------------------------------------------------------------------------------------------------
   event: [fn |-> "smooth", n, s_given, yf (input values as recorded), out (Weaver.smooth(s).get()), out_none (s omitted),
           out_default (s = len(y)*var(y) given explicitly), fun0 (to_function() evaluated at the samples), direct (spline_smooth(x, y, s)(x)),
           dev (deviations out - input scaled by the harness so that the largest is 1000, integers), s_scaled (the smoothing
           condition in the same squared units, integer, rounded up), same_x, same_len, identity_expected (s = 0 or affine data),
           warned (FITPACK reported non-convergence: the run is discarded, not judged)]                                     *)
RECURSIVE SumSq(_, _)
SumSq(d, i) == IF i > Len(d) THEN 0 ELSE d[i] * d[i] + SumSq(d, i + 1)
RECURSIVE SumAbs(_, _)
SumAbs(d, i) == IF i > Len(d) THEN 0 ELSE Abs(d[i]) + SumAbs(d, i + 1)
IdTol == 200                                  \* 2e-7 absolute on values of magnitude <= 100
V_smooth(e) ==
    IF e.outcome # "ok" THEN {"C16.outcome"}
    ELSE Fail(~e.same_x \/ ~e.same_len, "C16.x_and_length") \cup
         Fail(e.identity_expected /\ ~e.warned /\ ~NearSeqFF(e.out, e.yf, IdTol), "C16.identity") \cup
         \* sum of squared deviations within the smoothing condition (0.1% solver tolerance; slack bounds the integer projection)
         Fail(~e.warned /\ ~e.identity_expected /\ e.s_scaled >= 0
              /\ SumSq(e.dev, 1) > e.s_scaled + e.s_scaled \div 500 + 2 * SumAbs(e.dev, 1) + Len(e.dev) + 2, "C16.smoothing_condition") \cup
         Fail(~e.warned /\ ~NearSeqFF(e.out_none, e.out_default, 20), "C16.default_condition") \cup
         Fail(~e.warned /\ ~NearSeqFF(e.direct, e.out, 20), "C16.condition_forwarded") \cup
         Fail(~NearSeqFF(e.fun0, e.yf, IdTol), "C16.to_function_interpolates")
=============================================================================
