------------------------------ MODULE JCommon ------------------------------
(* Shared helpers of the judges: recorded floats (limbs) against model values. *)
EXTENDS Fx, Arrays

Tol == 5                       \* 5e-9 absolute: float rounding on lattice inputs is < 1e-11
IsNaNF(f) == f[1] = 2
\* recorded value f against model value p (number or NaN token)
NearV(f, p, tol) == IF p = NaN THEN IsNaNF(f) ELSE Near(f, p, tol)
SeqOK(fs, ps, tol) == /\ Len(fs) = Len(ps)
                      /\ \A i \in 1..Len(ps) : NearV(fs[i], ps[i], tol)
MatOK(fm, pm, tol) == /\ Len(fm) = Len(pm)
                      /\ \A r \in 1..Len(pm) : SeqOK(fm[r], pm[r], tol)
AllFinite(fs) == \A i \in 1..Len(fs) : IsFinite(fs[i])
FStrictlyIncreasing(fs) == \A i \in 1..(Len(fs) - 1) : FLt(fs[i], fs[i + 1])
Fail(cond, name) == IF cond THEN {name} ELSE {}
=============================================================================
