---------------------------- MODULE Trace_Cache -----------------------------
(***************************************************************************)
(* Trace specification for the remote loader (C19, and the remote loads    *)
(* of C18).  The events were recorded by the scheduler of                  *)
(* harness/cachelib.py from REAL forked loader processes: one event per    *)
(* granted step, holding what could be observed once the step was complete *)
(* (the boundary the process reached, every cache slot, every temporary    *)
(* directory, the network outcome consumed, the result delivered).         *)
(*                                                                         *)
(* A TLC run validates many traces: every trace starts with an "init"      *)
(* event; from the single initial state (l = 0) TLC steps to the head of   *)
(* any trace and then consumes that trace event by event, so the workers   *)
(* walk different traces in parallel and the run has exactly N + 1         *)
(* distinct states.                                                        *)
(*                                                                         *)
(* An event of kind "call" is a whole load observed from outside (no      *)
(* gating): the state is re-anchored and only the property is judged.     *)
(*                                                                         *)
(* Verdicts are total.  For every event                                    *)
(*   - if the step is a step of DatasetCache (the action enabled at the    *)
(*     reported boundary, with a successor that agrees with everything     *)
(*     observed) the spec state moves by that action;                      *)
(*   - otherwise the event is DRIFT ("impl.step"): the observable part of  *)
(*     the state is re-anchored on what the code did, and the walk goes on;*)
(*   - in both cases the property C19 - the invariants of DatasetCache,    *)
(*     which only talk about files, results and network use - is evaluated *)
(*     on the resulting state, and the failing clauses are printed as      *)
(*     <<"V", id, {clause names}>>.                                        *)
(***************************************************************************)
EXTENDS DatasetCache, Json, IOUtils, TLC

Trace == JsonDeserialize(IOEnv.TRACE_FILE)
N     == Len(Trace)

VARIABLES l,       \* index of the event consumed last (0 = none)
          drift    \* names of the impl.* clauses raised by that event

IdMap == [d \in Datasets |-> d]
AnyD  == CHOOSE d \in Datasets : TRUE

TmpOf(t) == [dir |-> t[1] = 1, dl |-> t[2], pk |-> t[3]]
ParseErrors  == {"ParseError", "ValueError", "EOFError", "BadGzipFile", "error"}
PickleErrors == {"UnpicklingError", "EOFError", "ValueError", "AttributeError", "IndexError", "KeyError"}
ResEq(m, o) == \/ m = o
               \/ m = Exc("ParseError") /\ o[1] = "exc" /\ o[2] \in ParseErrors
               \/ m = Exc("UnpicklingError") /\ o[1] = "exc" /\ o[2] \in PickleErrors

TraceInit ==
    /\ l = 0 /\ drift = {}
    /\ InitWith([p \in All |-> DefaultCfg(AnyD)], [s \in Slots |-> Absent], [u \in Urls |-> <<>>])

(* ---- head of a trace: arguments of the calls, initial cache, network table ------------------ *)
Load(e) ==
    /\ cfg' = [p \in All |-> IF p \in DOMAIN e.cfg THEN e.cfg[p] ELSE DefaultCfg(AnyD)]
    /\ slot' = [s \in Slots |-> IF s \in DOMAIN e.s THEN e.s[s] ELSE Absent]
    /\ net' = [u \in Urls |-> IF u \in DOMAIN e.net THEN e.net[u] ELSE <<>>]
    /\ tmp' = [p \in All |-> NoTmp]
    /\ pc' = [p \in All |-> IF p \in DOMAIN e.cfg THEN "start" ELSE "idle"]
    /\ left' = [p \in All |-> IF p \in DOMAIN e.cfg THEN e.cfg[p].nret ELSE ProbeRetries]
    /\ mem' = [p \in All |-> "none"]
    /\ pend' = [p \in All |-> None]
    /\ res' = [p \in All |-> None]
    /\ att' = [p \in All |-> 0]
    /\ fails' = [p \in All |-> 0]
    /\ last' = [p \in All |-> ""]
    /\ hit' = [p \in All |-> FALSE]
    /\ taint' = {}
    /\ act' = <<"Init", "", "">>

(* ---- what was observed after the step agrees with the spec state ----------------------------- *)
\* (written with primed variables, not as (P(e))': e is Trace[l + 1] and must not be primed with the rest)
ObsOK(e) ==
    /\ pc'[e.p] = e.pc
    /\ \A s \in DOMAIN e.s : slot'[s] = e.s[s]
    /\ \A x \in DOMAIN e.t : tmp'[x] = TmpOf(e.t[x])
    /\ ResEq(res'[e.p], e.r)
    /\ e.o = (IF e.k = "step" /\ e.g = "dl" THEN last'[e.p] ELSE "")
    /\ e.x = 0

Bound(e) ==
    CASE e.k = "step"  -> pc[e.p] = e.g /\ Step(e.p) /\ ObsOK(e)
      [] e.k = "crash" -> pc[e.p] = e.g /\ Crash(e.p) /\ ObsOK(e)
      [] e.k = "probe" -> ProbeStart(e.p) /\ cfg'[e.p].d = e.d /\ ObsOK(e)
      [] OTHER -> FALSE

(* ---- drift: keep the unobservable part, take the observable part from the event -------------- *)
Reanchor(e) ==
    LET p == e.p
        c == IF e.k = "probe" THEN DefaultCfg(e.d) ELSE cfg[p]
        u == UrlOf[c.d]
    IN /\ cfg' = [cfg EXCEPT ![p] = c]
       /\ pc' = [pc EXCEPT ![p] = IF e.pc \in PCs THEN e.pc ELSE "crashed"]
       /\ slot' = [s \in Slots |-> IF s \in DOMAIN e.s THEN e.s[s] ELSE slot[s]]
       /\ tmp' = [x \in All |-> IF x \in DOMAIN e.t THEN TmpOf(e.t[x]) ELSE tmp[x]]
       /\ res' = [res EXCEPT ![p] = e.r]
       /\ net' = IF e.k = "probe" THEN [net EXCEPT ![u] = <<>>]
                 ELSE IF e.o # "" THEN [net EXCEPT ![u] = IF @ = <<>> THEN @ ELSE Tail(@)]
                 ELSE net
       /\ att' = IF e.o # "" THEN [att EXCEPT ![p] = @ + 1] ELSE att
       /\ fails' = IF e.o \in Errors THEN [fails EXCEPT ![p] = @ + 1] ELSE fails
       /\ last' = IF e.o # "" THEN [last EXCEPT ![p] = e.o] ELSE last
       /\ hit' = IF e.g = "start" THEN [hit EXCEPT ![p] = (slot[SlotOf[c.d]][1] = "data")] ELSE hit
       /\ taint' = taint \cup {s \in DOMAIN e.s : Unverified(e.s[s]) /\ ~c.val /\ slot[s] # e.s[s]}
       /\ left' = IF e.k = "probe" THEN [left EXCEPT ![p] = ProbeRetries] ELSE left
       /\ UNCHANGED <<mem, pend>>
       /\ act' = <<"Drift", p, e.g>>

\* a whole sequential load recorded as one event (registry-level pairs): what a healthy load must deliver
CallOK(e) == LET d == cfg[e.p].d
             IN /\ e.r = Data(d, "good")
                /\ e.s[d] = Data(d, "good")
                /\ (e.o = "") = (slot[SlotOf[d]][1] = "data")

Known(e) == /\ e.k \in {"step", "crash", "probe", "call"}
            /\ e.p \in All
            /\ e.k = "probe" => e.d \in Datasets

TraceNext ==
    \/ /\ l = 0
       /\ \E i \in {j \in 1..N : Trace[j].k = "init"} :
            /\ l' = i
            /\ Load(Trace[i])
            /\ drift' = {}
    \/ /\ l > 0 /\ l < N
       /\ Trace[l + 1].k # "init"
       /\ l' = l + 1
       /\ LET e == Trace[l + 1]
          IN IF ~Known(e)
             THEN drift' = {"machinery.unknown_event"} /\ UNCHANGED vars
             ELSE IF e.k = "call"
             THEN Reanchor(e) /\ drift' = (IF CallOK(e) THEN {} ELSE {"impl.call"})
             ELSE \/ Bound(e) /\ drift' = {}
                  \/ ~ENABLED Bound(e) /\ Reanchor(e)
                     /\ drift' = IF e.pc = "died" THEN {"machinery.loader_died"} ELSE {"impl.step"}

(* ---- the property, evaluated on the state the code produced ---------------------------------- *)
Fail(ok, name) == IF ok THEN {} ELSE {name}
C19 == Fail(CacheSound, "C19.CacheSound")
       \cup Fail(NeverUnverified, "C19.NeverUnverified")
       \cup Fail(OfflineWhenCached, "C19.OfflineWhenCached")
       \cup Fail(ServedWhenCached, "C19.ServedWhenCached")
       \cup Fail(NeverDownloadsWhenToldNotTo, "impl.download_if_missing_false")
       \cup Fail(RetryBound, "C19.RetryBound")
       \cup Fail(ErrorClassOK, "C19.RetryBound.error_class")
       \cup Fail(NoCrossTalk, "C19.NoCrossTalk")
       \cup Fail(ProbeDone, "C19.LaterLoadSucceeds")

Judge == l > 0 => PrintT(<<"V", Trace[l].id, drift \cup C19>>)
=============================================================================
