------------------------------ MODULE JProcess ------------------------------
(* Judge of recorded calls of process.py and of the corresponding single Weaver operations
   (C11, C12, C13 constant/linear + environment clauses for cubic/spline, C14). *)
EXTENDS JCommon, Process

PairOK(fx1, fy1, m, tol) == SeqOK(fx1, m[1], tol) /\ SeqOK(fy1, m[2], tol)

(* ---- C12 repeat ---------------------------------------------------------------------------- *)
V_repeat(e) ==
    LET m == Repeat(e.x, e.y, e.r)
    IN Fail(e.outcome # "ok" \/ ~PairOK(e.outx, e.outy, m, Tol), "C12.value") \cup
       Fail(e.w_outcome # "ok" \/ ~PairOK(e.wx, e.wy, m, Tol), "C12.weaver") \cup
       \* (after a reshaping history the reference is no longer the working series: judged by C08's own histories)
       Fail(~e.reshaped /\ (e.w_outcome # "ok" \/ ~PairOK(e.wrx, e.wry, m, Tol)), "C08.repeat_reference") \cup
       Fail(e.outcome = "ok" /\ (Len(e.outx) # e.r * Len(e.x) \/ ~FStrictlyIncreasing(e.outx)), "C12.shape")

\* recorded pair: repeat(repeat(s, a), b) against repeat(s, a*b), and against the model
V_repeat2(e) ==
    LET m == Repeat(e.x, e.y, e.a * e.b)
    IN Fail(e.outcome # "ok" \/ ~NearSeqFF(e.abx, e.px, Tol) \/ ~NearSeqFF(e.aby, e.py, Tol)
            \/ ~PairOK(e.abx, e.aby, m, Tol), "C12.composition")

(* ---- C11 truncate / slice ------------------------------------------------------------------ *)
V_truncate(e) ==
    IF TruncRejects(e.x, e.left, e.right, e.lr, e.rr)
    THEN Fail(e.outcome # "ValueError" \/ e.w_outcome # "ValueError", "C20.truncate_order") \cup
         Fail(e.w_outcome = "ValueError" /\ ~e.w_unchanged, "C20.frame")
    ELSE LET m  == Truncate(e.x, e.y, e.left, e.right, e.lr, e.rr)
             \* after a history that made the series denser than its reference (e.rx0, e.ry0 = the reference before the cut):
             \* "the reference cut with the same BOUNDS", not with the same indices (seed C11i)
             mr == IF "rx0" \in DOMAIN e THEN Truncate(e.rx0, e.ry0, e.left, e.right, e.lr, e.rr) ELSE m
         IN Fail(e.outcome # "ok" \/ ~PairOK(e.outx, e.outy, m, Tol), "C11.truncate") \cup
            Fail(e.w_outcome # "ok" \/ ~PairOK(e.wx, e.wy, m, Tol), "C11.weaver_truncate") \cup
            Fail(e.w_outcome # "ok" \/ ~PairOK(e.wrx, e.wry, mr, Tol), "C11.reference_cut")

InX(x, v) == \E i \in 1..Len(x) : x[i] = v
PosOf(x, v) == CHOOSE i \in 1..Len(x) : x[i] = v
\* slice by value: precisely the samples with start <= x <= stop (every step-th), omitted bound = end of series
V_slice_value(e) ==
    IF (e.start # None /\ ~InX(e.x, e.start)) \/ (e.stop # None /\ ~InX(e.x, e.stop))
    THEN Fail(e.outcome # "ValueError", "C20.slice_value_not_sample")
    ELSE LET s0 == IF e.start = None THEN 0 ELSE PosOf(e.x, e.start) - 1
             s1 == IF e.stop = None THEN Len(e.x) ELSE PosOf(e.x, e.stop)
         IN Fail(e.outcome # "ok" \/ ~SeqOK(e.outx, SliceSeq(e.x, s0, s1, e.step), Tol)
                 \/ ~SeqOK(e.outy, SliceSeq(e.y, s0, s1, e.step), Tol), "C11.slice_by_value")

\* an omitted stop is documented as "the length of the time series" (also for negative steps)
StopOf(e) == IF e.stop = NoneInt THEN Len(e.x) ELSE e.stop
V_slice_index(e) ==
    IF e.start < 0 \/ (e.stop # NoneInt /\ e.stop > Len(e.x))
    THEN Fail(e.outcome # "ValueError", "C20.index_bounds")
    ELSE Fail(e.outcome # "ok" \/ ~SeqOK(e.outx, SliceSeq(e.x, e.start, StopOf(e), e.step), Tol)
              \/ ~SeqOK(e.outy, SliceSeq(e.y, e.start, StopOf(e), e.step), Tol), "C11.slice_by_index")

V_truncate_index(e) ==
    IF e.start < 0 \/ (e.stop # NoneInt /\ e.stop > Len(e.x))
    THEN Fail(e.outcome # "ValueError", "C20.index_bounds") \cup
         Fail(e.outcome = "ValueError" /\ ~e.w_unchanged, "C20.frame")
    ELSE Fail(e.outcome # "ok" \/ ~SeqOK(e.wx, SliceSeq(e.x, e.start, StopOf(e), 1), Tol)
              \/ ~SeqOK(e.wy, SliceSeq(e.y, e.start, StopOf(e), 1), Tol), "C11.truncate_by_index") \cup
         Fail(e.outcome # "ok" \/ ~SeqOK(e.wrx, SliceSeq(e.x, e.start, StopOf(e), 1), Tol)
              \/ ~SeqOK(e.wry, SliceSeq(e.y, e.start, StopOf(e), 1), Tol), "C11.reference_cut")

(* ---- C14 trend / normalise / shift / scale --------------------------------------------------- *)
V_trend(e) ==
    LET m == Trend(e.x, e.y, e.c, e.normalized)
        args == [i \in 1..Len(e.x) |-> TrendArg(e.x, i, e.normalized)]
    IN Fail(e.outcome # "ok" \/ ~SeqOK(e.outy, m[2], 50), "C14.trend_value") \cup
       Fail(e.outcome # "ok" \/ ~SeqOK(e.outx, e.x, Tol), "C14.trend_x") \cup
       Fail(e.outcome # "ok" \/ ~SeqOK(e.fargs, args, Tol), "C14.trend_arg") \cup
       Fail(e.w_outcome # "ok" \/ ~SeqOK(e.wy, m[2], 50) \/ ~SeqOK(e.wx, e.x, Tol), "C14.weaver_trend") \cup
       Fail(e.w_outcome = "ok" /\ (~SeqOK(e.wrx, IF "rx0" \in DOMAIN e THEN e.rx0 ELSE e.x, Tol)
                                  \/ ~SeqOK(e.wry, IF "rx0" \in DOMAIN e THEN e.ry0 ELSE e.y, Tol)), "C08.reshape_keeps_reference") \cup
       Fail(e.caller_modified, "C09.caller_modified")

V_linear_trend(e) ==
    LET m == LinearTrend(e.x, e.y, e.a, e.normalized)
    IN Fail(e.outcome # "ok" \/ ~SeqOK(e.outy, m[2], 50) \/ ~SeqOK(e.outx, e.x, Tol), "C14.linear_trend")

V_normalize(e) ==
    LET m == Normalize(e.a, e.lo, e.hi)
    IN Fail(e.outcome # "ok" \/ ~SeqOK(e.out, m, Tol), "C14.normalize") \cup
       Fail(e.w_outcome # "ok" \/ ~SeqOK(e.w_axis, m, Tol) \/ ~SeqOK(e.w_other, e.other, Tol), "C14.weaver_normalize") \cup
       Fail(e.w_outcome # "ok" \/ ~SeqOK(e.wr_axis, m, Tol) \/ ~SeqOK(e.wr_other, e.other, Tol), "C08.normalize_reference") \cup
       Fail(e.w_outcome # "ok" \/ ~SeqOK(e.wo_axis, m, Tol) \/ ~SeqOK(e.wo_other, e.other, Tol), "C09.normalize_original")

\* op in shift_x, shift_y, scale_x, scale_y
ApplyOp(op, x, y, v) ==
    CASE op = "shift_x" -> <<ShiftSeq(x, v), y>>
      [] op = "shift_y" -> <<x, ShiftSeq(y, v)>>
      [] op = "scale_x" -> <<ScaleSeq(x, v), y>>
      [] op = "scale_y" -> <<x, ScaleSeq(y, v)>>
V_shiftscale(e) ==
    LET m == ApplyOp(e.op, e.x, e.y, e.v)
    IN Fail(e.outcome # "ok" \/ ~PairOK(e.wx, e.wy, m, Tol), "C14.shift_scale") \cup
       Fail(e.outcome # "ok" \/ ~PairOK(e.wrx, e.wry, m, Tol), "C08.shift_scale_reference")

(* ---- C13 interpolation ----------------------------------------------------------------------- *)
V_interp(e) ==
    Fail(e.c_outcome # "ok" \/ ~SeqOK(e.c_out, InterpConstantSeq(e.x, e.y, e.q, e.left), Tol), "C13.constant") \cup
    Fail(e.l_outcome # "ok" \/ ~SeqOK(e.l_out, InterpLinearSeq(e.x, e.y, e.q), Tol), "C13.linear") \cup
    Fail(e.bad_outcome # "ValueError", "C13.unknown_method") \cup
    Fail(e.bad_outcome # "ValueError", "C20.interp_method")

\* cubic / spline: environment step constrained by the property (values at the nodes, affine data, length)
V_interp_env(e) ==
    LET aff == [k \in 1..Len(e.q) |-> RAdd(e.b, RMul(e.m, e.q[k]))]
        inside == {k \in 1..Len(e.q) : RLe(e.x[1], e.q[k]) /\ RLe(e.q[k], Last(e.x))}
    IN Fail(e.outcome # "ok" \/ ~SeqOK(e.at_nodes, e.y, 100), "C13.nodes." \o e.method) \cup
       \* (queries outside the data range extrapolate a cubic: the value may exceed what the projection holds, it is still a real number)
       Fail(e.outcome # "ok" \/ Len(e.out) # Len(e.q) \/ \E k \in 1..Len(e.out) : ~IsReal(e.out[k]), "C13.shape." \o e.method) \cup
       Fail(e.outcome # "ok" \/ Len(e.aff_out) # Len(e.q)
            \/ \E k \in inside : ~Near(e.aff_out[k], aff[k], 2000), "C13.affine." \o e.method)

\* Weaver.interpolate(n): exactly n equally spaced points spanning the same range; explicit grid: same end points
\* value of the Weaver-level interpolation for the two methods the documentation determines (others: environment)
WInterpVals(e, grid) == IF e.method = "constant" THEN InterpConstantSeq(e.x, e.y, grid, None) ELSE InterpLinearSeq(e.x, e.y, grid)
ValuesJudged(e) == e.method \in {"linear", "constant"}
\* A point of the computed grid that coincides with an interior sample in exact arithmetic may lie one ulp below it in binary64
\* (linspace rounds): for the piecewise-constant method the value of the previous sample is then the right answer for the
\* grid the code actually built.  Only for grids the code computes itself (mode "n"), never for a grid the caller hands over.
ConstTieOK(e, grid, k) ==
    \E j \in 2..Len(e.x) : grid[k] = e.x[j] /\ Near(e.wy[k], e.y[j - 1], Tol)
WValuesOK(e, grid) ==
    /\ Len(e.wy) = Len(grid)
    /\ \A k \in 1..Len(grid) : \/ Near(e.wy[k], WInterpVals(e, grid)[k], Tol)
                                \/ (e.method = "constant" /\ k > 1 /\ k < Len(grid) /\ ConstTieOK(e, grid, k))
V_winterp(e) ==
    IF e.mode = "n"
    THEN Fail(e.outcome # "ok" \/ ~SeqOK(e.wx, Linspace(e.x[1], Last(e.x), e.n), Tol) \/ Len(e.wy) # e.n, "C13.weaver_grid") \cup
         Fail(ValuesJudged(e) /\ (e.outcome # "ok" \/ ~WValuesOK(e, Linspace(e.x[1], Last(e.x), e.n))), "C13.weaver_" \o e.method) \cup
         Fail(e.outcome = "ok" /\ (~AllFinite(e.wy) \/ e.wkind # "ndarray1f"), "C09.kind")
    ELSE IF e.q[1] # e.x[1] \/ Last(e.q) # Last(e.x)
    THEN Fail(e.outcome # "ValueError", "C13.grid_endpoints") \cup Fail(e.outcome # "ValueError", "C20.interp_grid") \cup
         Fail(e.outcome = "ValueError" /\ ~e.w_unchanged, "C20.frame")
    ELSE Fail(e.outcome # "ok" \/ ~SeqOK(e.wx, e.q, Tol) \/ Len(e.wy) # Len(e.q), "C13.weaver_explicit_grid") \cup
         Fail(ValuesJudged(e) /\ (e.outcome # "ok" \/ ~SeqOK(e.wy, WInterpVals(e, e.q), Tol)), "C13.weaver_explicit_" \o e.method) \cup
         Fail(e.outcome = "ok" /\ (~AllFinite(e.wy) \/ e.wkind # "ndarray1f"), "C09.kind")
=============================================================================
