------------------------------- MODULE JShape -------------------------------
(* Trace validation against the shape abstraction (WeaverShape): every recorded step must be the transition the
   specification takes for that operation from the previously recorded abstract state.
   event: [fn |-> "wshape", arr (constructed from arrays?), steps |-> sequence of [act, n, r, o, sx, sy, wrote, kinds]] *)
EXTENDS WeaverShape

AsSet(t) == {t[i] : i \in 1..Len(t)}
RECURSIVE ShapeWalk(_, _, _)
ShapeWalk(e, j, s) ==
    IF j > Len(e.steps) THEN {}
    ELSE LET st == e.steps[j]  a == st.act
             s2 == Do(s, a)
             same == st.n = s2.n /\ st.r = s2.r /\ st.o = s2.o /\ AsSet(st.sx) = s2.sx /\ AsSet(st.sy) = s2.sy
         IN (IF st.outcome # "ok" THEN {"impl.valid_operation_failed." \o a.k} ELSE {}) \cup
            (IF AsSet(st.wrote) # {} THEN {"C09.caller_modified." \o a.k} ELSE {}) \cup
            (IF st.kinds # "ok" THEN {"C09.wellformed." \o a.k} ELSE {}) \cup
            (IF st.outcome = "ok" /\ ~same THEN {"impl.shape_step." \o a.k} ELSE {}) \cup
            (IF st.outcome = "ok" /\ same THEN ShapeWalk(e, j + 1, s2) ELSE {})
V_wshape(e) == ShapeWalk(e, 1, NewShape(6, e.arr))
=============================================================================
