------------------------------ MODULE JSearch ------------------------------
(* Judge of recorded calls of the neighbour-search functions (C10). *)
EXTENDS Search, Sequences

(* event: [fn |-> "search", x |-> rationals, q |-> rationals,
           calls |-> sequence of [strategy, fill, via ("direct"|"dispatch"), outcome, out]] *)
SearchCallBad(x, q, c) ==
    IF c.strategy \in Strategies
    THEN \/ c.outcome # "ok"
         \/ c.out # FindIdxs(x, q, c.strategy, c.fill)
    ELSE c.outcome # "ValueError"

V_search(e) ==
    LET bad == {k \in 1..Len(e.calls) : SearchCallBad(e.x, e.q, e.calls[k])}
    IN {IF e.calls[k].strategy \in Strategies
        THEN (IF e.calls[k].outcome # "ok" THEN "C10.outcome." \o e.calls[k].strategy
                                           ELSE "C10.value." \o e.calls[k].strategy)
        ELSE "C20.search_strategy" : k \in bad}
=============================================================================
