----------------------------- MODULE Trace_Fn ------------------------------
(***************************************************************************)
(* Trace specification for function-level events recorded from the real    *)
(* code.  One state per consumed event; events are independent calls, so   *)
(* the trace is cut into chunks that TLC's workers walk in parallel.  The   *)
(* verdict of every event is total: a set of failing clause names (empty = *)
(* accepted) printed as <<"V", id, clauses>>.                              *)
(***************************************************************************)
EXTENDS Json, IOUtils, TLC, JSearch

Trace == JsonDeserialize(IOEnv.TRACE_FILE)
Chunk == atoi(IOEnv.TRACE_CHUNK)
N     == Len(Trace)
VARIABLE l

TraceInit == l = 0
TraceNext == \/ /\ l = 0
                /\ l' \in {1 + c * Chunk : c \in 0..((N - 1) \div Chunk)}
             \/ /\ l > 0 /\ l < N /\ l % Chunk # 0
                /\ l' = l + 1

Verdict(e) ==
    CASE e.fn = "search" -> V_search(e)
      [] OTHER -> {"machinery.unknown_fn"}

Judge == l > 0 => PrintT(<<"V", Trace[l].id, Verdict(Trace[l])>>)
=============================================================================
