----------------------------- MODULE Trace_Fn ------------------------------
(***************************************************************************)
(* Trace specification for function-level events recorded from the real    *)
(* code.  One state per consumed event; events are independent calls, so   *)
(* the trace is cut into chunks that TLC's workers walk in parallel.  The   *)
(* verdict of every event is total: a set of failing clause names (empty = *)
(* accepted) printed as JSON {"V": id, "c": [clauses]}.                              *)
(***************************************************************************)
EXTENDS Json, IOUtils, TLC, JSearch, JArrays, JProcess, JRfa, JRfaRel, JMatch, JPipeline, JWeaver, JEnv, JShape

Trace == JsonDeserialize(IOEnv.TRACE_FILE)
Chunk == atoi(IOEnv.TRACE_CHUNK)
N     == Len(Trace)
VARIABLE l

TraceInit == l = 0
TraceNext == \/ /\ l = 0
                /\ l' \in {1 + c * Chunk : c \in 0..((N - 1) \div Chunk)}
             \/ /\ l > 0 /\ l < N /\ Mod(l, Chunk) # 0
                /\ l' = l + 1

Verdict(e) ==
    CASE e.fn = "search" -> V_search(e)
      [] e.fn = "oversample" -> V_oversample(e)
      [] e.fn = "extend" -> V_extend(e)
      [] e.fn = "append" -> V_append(e)
      [] e.fn = "integral" -> V_integral(e)
      [] e.fn = "sum_over" -> V_sum_over(e)
      [] e.fn = "interval" -> V_interval(e) \cup V_interval_more(e)
      [] e.fn = "average" -> V_average(e)
      [] e.fn = "repeat" -> V_repeat(e)
      [] e.fn = "repeat2" -> V_repeat2(e)
      [] e.fn = "truncate" -> V_truncate(e)
      [] e.fn = "slice_value" -> V_slice_value(e)
      [] e.fn = "slice_index" -> V_slice_index(e)
      [] e.fn = "truncate_index" -> V_truncate_index(e)
      [] e.fn = "trend" -> V_trend(e)
      [] e.fn = "linear_trend" -> V_linear_trend(e)
      [] e.fn = "normalize" -> V_normalize(e)
      [] e.fn = "shiftscale" -> V_shiftscale(e)
      [] e.fn = "interp" -> V_interp(e)
      [] e.fn = "interp_env" -> V_interp_env(e)
      [] e.fn = "winterp" -> V_winterp(e)
      [] e.fn = "rfa" -> V_rfa(e)
      [] e.fn = "rfa_reject" -> V_rfa_reject(e)
      [] e.fn = "funfit" -> V_funfit(e)
      [] e.fn = "rfa_rel" -> V_rfa_rel(e)
      [] e.fn = "match" -> V_match(e)
      [] e.fn = "stretch_private" -> V_stretch_private(e)
      [] e.fn = "pipeline" -> V_pipeline(e)
      [] e.fn = "whist" -> V_whist(e)
      [] e.fn = "wrestore" -> V_wrestore(e)
      [] e.fn = "reject_misc" -> V_reject_misc(e)
      [] e.fn = "noise" -> V_noise(e)
      [] e.fn = "wshape" -> V_wshape(e)
      [] e.fn = "smooth" -> V_smooth(e)
      [] OTHER -> {"machinery.unknown_fn"}

\* one line of JSON per event (TLC pretty-prints long tuples over several lines; a JSON string stays on one)
Judge == l > 0 => PrintT(ToJson([V |-> Trace[l].id, c |-> Verdict(Trace[l])]))
=============================================================================
