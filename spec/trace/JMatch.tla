------------------------------- MODULE JMatch -------------------------------
(* Judge of recorded integral-matching runs (C01 integrals, C03 frame / profile / idempotence).
   event: [fn |-> "match", x, y, xref, yref (rationals), mode, strategy, given, trule, rrule, alpha (rational), exact,
           outcome, out (recorded result), out2 (recorded result of matching the result again), wout (through the Weaver,
           or <<>>), small (values fit the coarse fixed point used by the clause evaluation)]
   Two-stage judging (DESIGN 2.3): stage 1 - the recorded result equals the exact model, for which TLC evaluates P01 / P03
   exactly; stage 2 - only for results that differ from the model (or when the exponent is not exactly computable): the
   clauses of the property are evaluated directly on the recorded values in coarse fixed point with slack. *)
EXTENDS JCommon, Match

FOfR(p) == LET m == Limbs(p) IN <<Sgn(p[1]), m[1], m[2]>>
\* recorded value in units of 1e-4 (|v| < 2*10^5), truncated towards zero
F4(f) == f[1] * f[2]
\* a rational whose 1e-4 multiple is an integer (inputs are dyadic with at most 4 binary digits), as that integer
R4(p) == LET q == RMul(p, RInt(10000)) IN q[1] \div q[2]

Fp(e) == FixedPoints(e.x, e.xref, e.mode, e.strategy, e.given)
Tg(e) == Targets(e.xref, e.yref, e.rrule, Fp(e).refidx)
Rejected(e) == TooMany(e.x, e.mode, e.given) \/ (~IndexOutOfRange(e.x, e.mode, e.given) /\ NotSamples(e.x, e.xref, e.mode, e.strategy, e.given))
Scope(e) == ~TooMany(e.x, e.mode, e.given) /\ ~IndexOutOfRange(e.x, e.mode, e.given) /\ InScope(Fp(e))
            /\ e.trule \in Rules /\ e.rrule \in Rules
ModelComputable(e) == e.exact /\ AllWeightsDefined(e.x, Fp(e), e.alpha)
Model(e) == MatchWith(e.x, e.y, Fp(e), Tg(e), e.trule, e.alpha)

(* ---- stage 2 clauses on the recorded values ------------------------------------------------------------------ *)
\* window integral of the recorded values in 1e-4 units (a rational), against the exact target
WinIntegral4(e, s, t) ==
    LET xs == SubSeqR(e.x, s, t)
        ys == [i \in 1..(t - s + 1) |-> RInt(F4(e.out[s + i - 1]))]
    IN TotalIntegral(xs, ys, e.trule)
IntegralOK(e, k) ==
    LET s == Fp(e).fpi[k] + 1  t == Fp(e).fpi[k + 1] + 1
        diff == RAbs(RSub(WinIntegral4(e, s, t), RMul(Tg(e)[k], RInt(10000))))
        \* each sample is off by < 1 unit (truncation): the integral by less than the window's width; plus 1e-4*|target| slack
        slack == RAdd(RAdd(RSub(e.x[t], e.x[s]), RInt(2)), RAbs(Tg(e)[k]))
    IN RLe(diff, slack)
FrameOK(e) ==
    LET fp == Fp(e)
    IN /\ \A i \in 1..Len(e.y) : (i < fp.fpi[1] + 1 \/ i > Last(fp.fpi) + 1) => Near(e.out[i], e.y[i], Tol)
       /\ \A k \in 1..Len(fp.fpi) : Near(e.out[fp.fpi[k] + 1], e.y[fp.fpi[k] + 1], 20)
\* displacement of sample i in 1e-4 units
D4(e, i) == F4(e.out[i]) - R4(e.y[i])
OneSignOK(e, k) ==
    LET s == Fp(e).fpi[k] + 1  t == Fp(e).fpi[k + 1] + 1
    IN (\A i \in s..t : D4(e, i) >= -1) \/ (\A i \in s..t : D4(e, i) <= 1)
\* proportional to the documented profile: d_i * w_ref = d_ref * w_i with the largest-weight sample as reference
ProfileOK(e, k) ==
    LET s == Fp(e).fpi[k] + 1  t == Fp(e).fpi[k + 1] + 1
        w == Weights(SubSeqR(e.x, s, t), e.alpha)
        ref == CHOOSE i \in 1..Len(w) : \A j \in 1..Len(w) : RGe(w[i], w[j])
        dref == D4(e, s + ref - 1)
    IN \A i \in 1..Len(w) :
          LET ratio == RDiv(w[i], w[ref])          \* in [0, 1]
              expect == RMul(RInt(dref), ratio)
          IN RLe(RAbs(RSub(RInt(D4(e, s + i - 1)), expect)), RAdd(RInt(3), <<Abs(dref), 1000>>))
\* order-level profile clauses for exponents that are not exactly computable: zero at the ends, symmetric,
\* growing towards the centre
ProfileOrderOK(e, k) ==
    LET s == Fp(e).fpi[k] + 1  t == Fp(e).fpi[k + 1] + 1
        c == RMul(RAdd(e.x[s], e.x[t]), <<1, 2>>)
        dist(i) == RAbs(RSub(c, e.x[i]))
        mag(i) == Abs(D4(e, i))
        big == CHOOSE m \in {mag(i) : i \in s..t} : \A i \in s..t : mag(i) <= m
    IN \A i, j \in s..t :
          /\ (dist(i) = dist(j) => Abs(mag(i) - mag(j)) <= 3 + big \div 1000)
          /\ (RLt(dist(i), dist(j)) => mag(i) + 3 + big \div 1000 >= mag(j))

Stage2(e) ==
    LET nw == Len(Fp(e).fpi) - 1
    IN Fail(e.small /\ \E k \in 1..nw : ~IntegralOK(e, k), "C01.interval_integral") \cup
       Fail(~FrameOK(e), "C03.frame") \cup
       Fail(e.small /\ \E k \in 1..nw : ~OneSignOK(e, k), "C03.one_sign") \cup
       Fail(e.small /\ e.exact /\ e.alpha \in {<<1, 1>>, <<2, 1>>, <<1, 2>>, <<3, 2>>} /\ AllWeightsDefined(e.x, Fp(e), e.alpha) /\ \E k \in 1..nw : ~ProfileOK(e, k), "C03.profile") \cup
       Fail(e.small /\ ~e.exact /\ \E k \in 1..nw : ~ProfileOrderOK(e, k), "C03.profile_order")

(* ---- beyond the listed properties: the private kernels called directly, with their argument defaults ---------------
   event: [fn |-> "stretch_private", kind ("window" | "interval"), xnone, x, dx, y, rule, alpha, target (window),
           valsnone, values, fpinone, fpi (interval), outcome, out] *)
PrivX(e) == IF e.xnone THEN [i \in 1..Len(e.y) |-> RMul(RInt(i - 1), e.dx)] ELSE e.x
\* documented default of the window indices: evenly spaced, [0, len/n, 2 len/n, ...] up to len
PrivFpi(e) == IF ~e.fpinone THEN e.fpi
              ELSE LET st == Len(e.y) \div Len(e.values) IN [k \in 1..((Len(e.y) \div st) + 1) |-> (k - 1) * st]
PrivVals(e) == IF ~e.valsnone THEN e.values ELSE [k \in 1..(Len(e.fpi) - 1) |-> Zero]
RECURSIVE PrivLoop(_, _, _, _, _, _, _)
PrivLoop(x, y, fpi, vals, rule, alpha, k) ==
    IF k > Len(vals) \/ k > Len(fpi) - 1 THEN y
    ELSE LET s == fpi[k] + 1
             t == IF fpi[k + 1] + 1 > Len(y) THEN Len(y) ELSE fpi[k + 1] + 1          \* the slice is clipped at the end
         IN PrivLoop(x, WindowStep(x, y, s, t, vals[k], rule, alpha), fpi, vals, rule, alpha, k + 1)
V_stretch_private(e) ==
    IF e.kind = "interval" /\ e.valsnone /\ e.fpinone THEN Fail(e.outcome # "ValueError", "impl.stretch_private.missing_arguments")
    ELSE IF e.outcome # "ok" THEN {"impl.stretch_private.outcome"}
    ELSE IF e.kind = "window"
         THEN Fail(~SeqOK(e.out, Stretch(PrivX(e), e.y, e.target, e.rule, e.alpha), 20), "impl.stretch_private.window")
         ELSE Fail(~SeqOK(e.out, PrivLoop(PrivX(e), e.y, PrivFpi(e), PrivVals(e), e.rule, e.alpha, 1), 20), "impl.stretch_private.interval")

V_match(e) ==
    IF e.trule \notin Rules \/ e.rrule \notin Rules THEN Fail(e.outcome # "ValueError", "C20.integral_rule")
    ELSE IF Rejected(e) THEN Fail(e.outcome # "ValueError", "C20.fixed_points")
    ELSE IF ~Scope(e) THEN {}                                  \* outside the stated precondition: recorded, not judged
    ELSE IF e.outcome # "ok" THEN {"C01.outcome", "C03.outcome"}
    ELSE IF Len(e.out) # Len(e.y) \/ ~AllFinite(e.out) THEN {"C01.shape", "C03.shape"}
    ELSE (IF ModelComputable(e) /\ SeqOK(e.out, Model(e), 20)
          THEN \* stage 1: equal to the model; the model must satisfy the property modules exactly
               \* (behaviours emitted by MC_Match were already checked against P01 / P03 in that run: e.mc)
               Fail(~e.mc /\ ~P01(e.x, Model(e), Fp(e), Tg(e), e.trule), "machinery.model_violates_P01") \cup
               Fail(~e.mc /\ ~P03(e.x, e.y, Model(e), Fp(e), e.alpha), "machinery.model_violates_P03")
          ELSE Stage2(e) \cup (IF ModelComputable(e) THEN {"impl.match_value"} ELSE {}))
         \cup Fail(~NearSeqFF(e.out2, e.out, 100), "C03.idempotent")
         \cup Fail(e.wout # <<>> /\ ~NearSeqFF(e.wout, e.out, Tol), "C01.weaver_consistent")
=============================================================================
