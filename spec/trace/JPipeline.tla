----------------------------- MODULE JPipeline ------------------------------
(* Judge of recorded recreate + match pipelines (C02).  P02 needs only the result: inside an original interval the
   sub-spacing is uniform, so the mean under either rule is a plain (half-weighted at the ends for the trapezoid rule)
   sum of samples - integer additions of the recorded values in 1e-4 units, slack 2 units per sample.  Values are
   recorded after multiplication by a power of ten chosen by the harness (the property is invariant under scaling).
   event: [fn |-> "pipeline", n, m, trule, yf (reference values), out, refxbits, nthbits, avgxbits, avgy, kind, outcome] *)
EXTENDS JCommon

F4v(f) == f[1] * f[2]
RECURSIVE SumF4(_, _, _)
SumF4(s, a, b) == IF a > b THEN 0 ELSE F4v(s[a]) + SumF4(s, a + 1, b)

MeanOK(e, k) ==                      \* k = 1..m-1
    LET n == e.n  lo == (k - 1) * n + 1  hi == k * n + 1
        target == F4v(e.yf[k])
    IN IF e.trule = "rectangle"
       THEN Abs(SumF4(e.out, lo, hi - 1) - n * target) <= 2 * n + 2
       ELSE Abs(F4v(e.out[lo]) + F4v(e.out[hi]) + 2 * SumF4(e.out, lo + 1, hi - 1) - 2 * n * target) <= 4 * n + 4

(* Series with a wide dynamic range (large values before small ones): the absolute projection cannot tell a wrong small
   interval from rounding, so for such cases the harness additionally records every interval's samples divided by that
   interval's own original average (e.norm[k], values near 1; rectangle target rule, non-zero averages).  Their sum must be n.
   Summed limb-wise to stay inside 32 bits: value = hi * 1e-4 + lo * 1e-9. *)
RECURSIVE SumHi(_, _)
SumHi(s, i) == IF i > Len(s) THEN 0 ELSE s[i][1] * s[i][2] + SumHi(s, i + 1)
RECURSIVE SumLo(_, _)
SumLo(s, i) == IF i > Len(s) THEN 0 ELSE s[i][1] * s[i][3] + SumLo(s, i + 1)
\* An interval next to the large ones contains transition samples that are huge relative to its own average: its rounding
\* error is relative to those, so it is judged only when every normalised sample stays below 8 in magnitude.
Moderate(blk) == \A i \in 1..Len(blk) : IsFinite(blk[i]) /\ blk[i][2] < 80000
NormOK(blk, n) ==
    /\ Len(blk) = n
    /\ \A i \in 1..Len(blk) : IsReal(blk[i])
    /\ Moderate(blk) =>
          LET dh == SumHi(blk, 1) - n * 10000
          IN /\ Abs(dh) <= n + 20                                           \* (every hi limb is truncated: up to n units below) ...
             /\ Abs(dh * 100000 + SumLo(blk, 1)) <= 16 * n + 40             \* ... and by less than (16n + 40) * 1e-9
RelMeansOK(e) == "norm" \notin DOMAIN e \/ \A k \in 1..Len(e.norm) : NormOK(e.norm[k], e.n)

V_pipeline(e) ==
    IF e.outcome # "ok" THEN {"C02.outcome"}
    ELSE IF Len(e.out) # (e.m - 1) * e.n + 1 \/ ~AllFinite(e.out) \/ e.kind # "ndarray1f" THEN {"C02.shape"}
    ELSE Fail(\E k \in 1..(e.m - 1) : ~MeanOK(e, k), "C02.interval_mean") \cup
         Fail(~RelMeansOK(e), "C02.interval_mean_relative") \cup
         Fail(e.nthbits # e.refxbits, "C02.nth_abscissa") \cup
         (IF e.trule # "rectangle" THEN {}
          ELSE Fail(Len(e.avgxbits) < e.m - 1 \/ \E k \in 1..(e.m - 1) : e.avgxbits[k] # e.refxbits[k], "C02.average_abscissae") \cup
               Fail(Len(e.avgy) < e.m - 1 \/ \E k \in 1..(e.m - 1) : Abs(F4v(e.avgy[k]) - F4v(e.yf[k])) > 3, "C02.average_values"))
=============================================================================
