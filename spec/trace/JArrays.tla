------------------------------ MODULE JArrays ------------------------------
(* Judge of recorded calls of the array helpers, the interval view and block averaging (C17). *)
EXTENDS JCommon

V_oversample(e) ==
    Fail(e.outcome # "ok" \/ ~SeqOK(e.out_lin, OversampleLinspace(e.a, e.num), Tol), "C17.oversample_linspace") \cup
    Fail(e.outcome # "ok" \/ ~SeqOK(e.out_pw, OversamplePiecewise(e.a, e.num), Tol), "C17.oversample_piecewise")

V_extend(e) ==
    Fail(e.outcome # "ok" \/ ~SeqOK(e.out_lin, ExtendLinspace(e.a, e.n, e.dir, e.lstart, e.rstop), Tol), "C17.extend_linspace") \cup
    Fail(e.outcome # "ok" \/ ~SeqOK(e.out_const, ExtendConstant(e.a, e.n, e.dir), Tol), "C17.extend_constant")

V_append(e) ==
    LET m == AppendOneSample(e.x, e.y, e.periodic)
    IN Fail(e.outcome # "ok" \/ ~SeqOK(e.outx, m[1], Tol) \/ ~SeqOK(e.outy, m[2], Tol), "C17.append_one_sample")

V_integral(e) ==
    Fail(e.outcome # "ok" \/ ~SeqOK(e.out_rect, RectIntegral(e.x, e.y), Tol) \/ ~SeqOK(e.out_rect_d, RectIntegral(e.x, e.y), Tol), "C17.rectangle_integral") \cup
    Fail(e.outcome # "ok" \/ ~SeqOK(e.out_trap, TrapIntegral(e.x, e.y), Tol) \/ ~SeqOK(e.out_trap_d, TrapIntegral(e.x, e.y), Tol), "C17.trapezoid_integral") \cup
    Fail(e.bad_rule_outcome # "ValueError", "C20.integral_rule")

V_sum_over(e) ==
    Fail(e.outcome # "ok" \/ ~SeqOK(e.out, SumOverIndices(e.a, e.idx), Tol), "C17.sum_over_indices")

(* interval view: reads [i, j, value], then writes [i, j, v] applied in order and the array afterwards *)
RECURSIVE ApplySets(_, _, _, _)
ApplySets(a, n, sets, k) == IF k > Len(sets) THEN a
                            ELSE ApplySets(IvSet(a, n, sets[k][1], sets[k][2], sets[k][3]), n, sets, k + 1)
V_interval(e) ==
    Fail(e.outcome # "ok" \/ \E k \in 1..Len(e.gets) : ~NearV(e.gets[k][3], IvGet(e.a, e.n, e.gets[k][1], e.gets[k][2]), Tol), "C17.interval_get") \cup
    Fail(e.outcome # "ok" \/ ~SeqOK(e.after_sets, ApplySets(e.a, e.n, e.sets, 1), Tol), "C17.interval_set") \cup
    Fail(e.outcome # "ok" \/ ~MatOK(e.to2d, To2D(e.a, e.n), Tol), "C17.to_2d_array") \cup
    Fail(e.outcome # "ok" \/ ~MatOK(e.to2d_after_sets, To2D(ApplySets(e.a, e.n, e.sets, 1), e.n), Tol), "C17.to_2d_array") \cup
    Fail(e.outcome # "ok" \/ ~MatOK(e.to2d_closed, To2DClosed(e.a, e.n, TRUE), Tol) \/ ~MatOK(e.to2d_closed_all, To2DClosed(e.a, e.n, FALSE), Tol), "C17.to_2d_array_closed") \cup
    Fail(e.outcome # "ok" \/ e.nr_full # NrFullIntervals(e.a, e.n) \/ e.len # Len(e.a), "C17.interval_counts") \cup
    Fail(e.outcome # "ok" \/ ~SeqOK(e.ov_lin, OversampleLinspace(e.a, e.num), Tol) \/ ~SeqOK(e.ov_pw, OversamplePiecewise(e.a, e.num), Tol) \/ e.ov_n # e.n * e.num, "C17.interval_oversample")

(* beyond the listed property: flat indices, iteration, repr, index arity, extension through the view, list input *)
RECURSIVE ApplyFlatSets(_, _, _)
ApplyFlatSets(a, sets, k) == IF k > Len(sets) THEN a ELSE ApplyFlatSets(IvSetFlat(a, sets[k][1], sets[k][2]), sets, k + 1)
V_interval_more(e) ==
    IF e.outcome # "ok" THEN {} ELSE
    Fail(\E k \in 1..Len(e.fgets) : ~NearV(e.fgets[k][2], IvGetFlat(e.a, e.fgets[k][1]), Tol), "impl.interval_flat_get") \cup
    Fail(~SeqOK(e.after_fsets, ApplyFlatSets(e.a, e.fsets, 1), Tol), "impl.interval_flat_set") \cup
    Fail(~SeqOK(e.iter, e.a, Tol), "impl.interval_iter") \cup
    Fail(e.repr_n # e.n \/ ~SeqOK(e.repr_vals, e.a, Tol), "impl.interval_repr") \cup
    Fail(e.idx3 # "IndexError" \/ e.set3 # "IndexError", "impl.interval_index_arity") \cup
    Fail(Len(e.a) > e.n /\ ~SeqOK(e.ext_lin, ExtendLinspace(e.a, e.n, e.ext_dir, None, None), Tol), "C17.interval_extend_linspace") \cup
    Fail(~SeqOK(e.ext_const, ExtendConstant(e.a, e.n, e.ext_dir), Tol) \/ e.ext_n # e.n, "C17.interval_extend_constant") \cup
    Fail(~SeqOK(e.from_list, e.a, Tol) \/ e.from_list_kind # "ndarray", "impl.interval_from_list")

V_average(e) ==
    LET m == Average(e.x, e.y, e.n)
    IN Fail(e.outcome # "ok" \/ ~SeqOK(e.outx, m[1], Tol), "C17.average_x") \cup
       Fail(e.outcome # "ok" \/ ~SeqOK(e.outy, m[2], Tol), "C17.average_y")
=============================================================================
