------------------------------ MODULE JRfaRel ------------------------------
(* Judge of relations between recorded recreate-from-average runs (C07): commutation with changes of units, locality,
   linearity and weights.  Relations are evaluated directly on the recorded values in 1e-5 fixed point (F5), with a
   slack that bounds the projection error, so the verdict does not depend on the exact model.
   event: [fn |-> "rfa_rel", rel, strategy, n, m, j, maps |-> <<ay, by, cx, dx>>, runs |-> sequence of [outx, outy]] *)
EXTENDS JCommon

\* f2 = a * f1 + b  (a, b rationals; b * 1e5 * den(a) must be an integer - guaranteed by the generators)
AffOK(f2, f1, a, b) ==
    LET q == a[2]  p == a[1]
        bb == RMul(b, RInt(100000 * q))
    IN /\ IsFinite(f1) /\ IsFinite(f2)
       /\ Assert(IsInt(bb), <<"rfa_rel: shift not representable (machinery)", b, q>>)
       /\ Abs(q * F5(f2) - p * F5(f1) - bb[1]) <= Abs(p) + 2 * q
SameLen(r1, r2) == Len(r1.outy) = Len(r2.outy) /\ Len(r1.outx) = Len(r2.outx) /\ Len(r1.outy) = Len(r1.outx)
IntervalOf(i, n) == (i - 1) \div n            \* 0-based interval of 1-based sample i (the final sample counts as interval m-1)

V_rfa_rel(e) ==
    IF e.outcome # "ok" THEN {"C07.outcome"}
    ELSE IF e.rel = "affine" THEN
        LET r1 == e.runs[1]  r2 == e.runs[2]
        IN Fail(~SameLen(r1, r2) \/ \E i \in 1..Len(r1.outy) : ~AffOK(r2.outy[i], r1.outy[i], e.maps[1], e.maps[2]), "C07.commute_values") \cup
           Fail(~SameLen(r1, r2) \/ \E i \in 1..Len(r1.outx) : ~AffOK(r2.outx[i], r1.outx[i], e.maps[3], e.maps[4]), "C07.commute_time")
    ELSE IF e.rel = "affine_exact" THEN
        \* exactly representable maps of extreme magnitude (power-of-two scales, large integer shifts): the harness maps the
        \* second run back into the units of the first (an exact floating-point operation for these maps) and records it
        LET r1 == e.runs[1]  r2 == e.runs[2]
        IN Fail(~SameLen(r1, r2) \/ ~NearSeqFF(r1.outy, r2.outy, Tol), "C07.commute_values") \cup
           Fail(~SameLen(r1, r2) \/ ~NearSeqFF(r1.outx, r2.outx, Tol), "C07.commute_time")
    ELSE IF e.rel = "local" THEN
        LET r1 == e.runs[1]  r2 == e.runs[2]
        IN Fail(~SameLen(r1, r2) \/ \E i \in 1..Len(r1.outy) :
                   Abs(IntervalOf(i, e.n) - e.j) > e.radius /\ ~NearFF(r1.outy[i], r2.outy[i], Tol), "C07.local")
    ELSE IF e.rel = "linear" THEN
        LET r1 == e.runs[1]  r2 == e.runs[2]  r12 == e.runs[3]
        IN Fail(~SameLen(r1, r2) \/ ~SameLen(r1, r12) \/ \E i \in 1..Len(r1.outy) :
                   Abs(F5(r12.outy[i]) - F5(r1.outy[i]) - F5(r2.outy[i])) > 3, "C07.linear")
    ELSE IF e.rel = "weights" THEN           \* runs[j] = response to the j-th unit vector
        LET L == Len(e.runs[1].outy)
            Sum(i) == LET RECURSIVE S(_)
                          S(j) == IF j = 0 THEN 0 ELSE S(j - 1) + F5(e.runs[j].outy[i])
                      IN S(Len(e.runs))
        IN Fail(\E j \in 1..Len(e.runs) : Len(e.runs[j].outy) # L, "C07.weights_sum") \cup
           Fail(\E i \in 1..L : Abs(Sum(i) - 100000) > Len(e.runs) + 1, "C07.weights_sum") \cup
           Fail(e.nonneg /\ \E j \in 1..Len(e.runs) : \E i \in 1..Len(e.runs[j].outy) : F5(e.runs[j].outy[i]) < -1, "C07.weights_nonneg")
    ELSE {"machinery.unknown_rel"}
=============================================================================
