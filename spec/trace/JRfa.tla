-------------------------------- MODULE JRfa --------------------------------
(* Judge of recorded recreate-from-average runs (C04 structure, C05 shape guarantees, C06 geometry / values).
   event: [fn |-> "rfa", strategy, x, y, n, a (explicit window or -1), alpha, beta, exp (rational <<p,q>>), smooth (integer),
           exact (model computable for these parameters), outcome, kind, outx, outy, xbits, nthbits, als, ars] *)
EXTENDS JCommon, Rfa

FOf(p) == LET m == Limbs(p) IN <<Sgn(p[1]), m[1], m[2]>>         \* exact for values with <= 9 decimals

RfM(e) == Len(e.x)
RfA(e) == WindowA(e.n, e.alpha, e.a)
RfK(e) == NrIntervals(e.x, e.n)

(* ---- C04: n-fold grid structure -------------------------------------------------------------- *)
V_rfa_structure(e) ==
    Fail(e.outcome # "ok", "C04.outcome") \cup
    Fail(e.outcome = "ok" /\ e.kind # "ndarray1f", "C04.container") \cup
    Fail(e.outcome = "ok" /\ (Len(e.outx) # (RfM(e) - 1) * e.n + 1 \/ Len(e.outy) # Len(e.outx)), "C04.length") \cup
    Fail(e.outcome = "ok" /\ (~AllFinite(e.outx) \/ ~AllFinite(e.outy)), "C04.finite") \cup
    Fail(e.outcome = "ok" /\ ~SeqOK(e.outx, OversampleLinspace(e.x, e.n), Tol), "C04.grid") \cup
    Fail(e.outcome = "ok" /\ ~FStrictlyIncreasing(e.outx), "C04.increasing") \cup
    Fail(e.outcome = "ok" /\ e.nthbits # e.xbits, "C04.nth_abscissa_bits")

(* ---- C05: bounds, plateau, monotone (order clauses evaluated on the recorded values) ---------- *)
RfZ(e, k, i)  == e.outy[k * e.n + i + 1]                      \* k = 0..m-2 (interval), i = 0..n-1
Final(e)    == e.outy[(RfM(e) - 1) * e.n + 1]
Yk(e, k)    == FOf(e.y[k + 1])                               \* k = 0..m-1
Border(e, k) == IF k = RfM(e) - 2 THEN Final(e) ELSE RfZ(e, k + 1, 0)
DiffSet(e, k) == {i \in 0..(e.n - 1) : ~FEq(RfZ(e, k, i), Yk(e, k))}
LeadRun(e, k) == LET D == DiffSet(e, k) IN Cardinality({i \in D : \A j \in 0..i : j \in D})
TrailRun(e, k) == LET D == DiffSet(e, k) IN Cardinality({i \in D : \A j \in i..(e.n - 1) : j \in D})
MonoSeq(s) == (\A i \in 1..(Len(s) - 1) : FLe(s[i], s[i + 1])) \/ (\A i \in 1..(Len(s) - 1) : FLe(s[i + 1], s[i]))

PlateauOK(e, k) ==
    LET D == DiffSet(e, k)  L == LeadRun(e, k)  R == TrailRun(e, k)
    IN /\ D = (0..(L - 1)) \cup ((e.n - R)..(e.n - 1))
       /\ Cardinality(D) <= RfA(e) - 1
BoundsOK(e, k) ==
    LET L == LeadRun(e, k)  R == TrailRun(e, k)
        prev == IF k = 0 THEN Yk(e, 0) ELSE Yk(e, k - 1)
        next == Yk(e, k + 1)
    IN /\ \A i \in 0..(L - 1) : FBetween(RfZ(e, k, i), Yk(e, k), prev)
       /\ \A i \in (e.n - R)..(e.n - 1) : FBetween(RfZ(e, k, i), Yk(e, k), next)
MonotoneOK(e, k) ==
    LET L == LeadRun(e, k)  R == TrailRun(e, k)
    IN IF L = e.n THEN TRUE     \* no plateau at all: already a plateau violation
       ELSE /\ MonoSeq([i \in 1..(L + 1) |-> IF i <= L THEN RfZ(e, k, i - 1) ELSE Yk(e, k)])
            /\ MonoSeq([i \in 1..(R + 2) |-> IF i = 1 THEN Yk(e, k)
                                             ELSE IF i = R + 2 THEN Border(e, k) ELSE RfZ(e, k, e.n - R + i - 2)])
ShapeApplies(e) == e.outcome = "ok" /\ Len(e.outy) = (RfM(e) - 1) * e.n + 1 /\ AllFinite(e.outy)
V_rfa_shape(e) ==
    \* a sample that is not a finite number is not between the neighbouring averages (window strategies)
    IF e.outcome = "ok" /\ Len(e.outy) = (RfM(e) - 1) * e.n + 1 /\ ~AllFinite(e.outy) /\ e.strategy \in WindowStrategies
    THEN {"C05.bounds"}
    \* a strategy that raises on an admissible series neither "reproduces each average" nor "passes through every original point"
    \* (seed C05i: a spline supplier that needs four points; the events of this family are all admissible requests, cf. C04.outcome)
    ELSE IF e.outcome # "ok" /\ e.strategy = "CubicSpline" THEN {"C05.spline_nodes"}
    ELSE IF e.outcome # "ok" /\ e.strategy = "PiecewiseConstant" THEN {"C05.piecewise_exact"}
    ELSE IF ~ShapeApplies(e) THEN {}
    ELSE IF e.strategy \in WindowStrategies
    THEN Fail(\E k \in 0..(RfM(e) - 2) : ~PlateauOK(e, k), "C05.plateau") \cup
         Fail(\E k \in 0..(RfM(e) - 2) : ~BoundsOK(e, k), "C05.bounds") \cup
         Fail(~FBetween(Final(e), Yk(e, RfM(e) - 2), Yk(e, RfM(e) - 1)), "C05.bounds_last") \cup
         Fail(\E k \in 0..(RfM(e) - 2) : ~MonotoneOK(e, k), "C05.monotone")
    ELSE IF e.strategy = "PiecewiseConstant"
    THEN Fail(~SeqOK(e.outy, OversamplePiecewise(e.y, e.n), 1), "C05.piecewise_exact")
    ELSE IF e.strategy = "CubicSpline"
    THEN Fail(\E k \in 0..(RfM(e) - 1) : ~Near(e.outy[k * e.n + 1], e.y[k + 1], 100), "C05.spline_nodes")
    ELSE {}
\* a constant series is recreated as a constant by every strategy
V_rfa_constant(e) ==
    IF ShapeApplies(e) /\ \A i \in 1..Len(e.y) : e.y[i] = e.y[1]
    THEN Fail(\E i \in 1..Len(e.outy) : ~Near(e.outy[i], e.y[1], IF e.strategy = "CubicSpline" THEN 100 ELSE 1), "C05.constant")
    ELSE {}

(* ---- C06: values follow the documented geometry (equality with the exact model) ---------------- *)
ExpOf(e) == e.exp
ModelDefined(e) ==
    /\ e.exact /\ e.strategy \in WindowStrategies
    /\ (e.strategy \in {"LinearAdaptive", "ExpAdaptive"} => WindowsAllowed(YE(e.y, e.n), e.n, RfK(e), RfA(e), e.smooth, e.als, e.ars))
    /\ (e.strategy = "ExpFixed" => LET w == FixedWindows(e.x, e.n, RfA(e)) IN ExpDefined(e.x, e.n, w[1], w[2], e.beta, e.exp))
    /\ (e.strategy = "ExpAdaptive" => ExpDefined(e.x, e.n, e.als, e.ars, e.beta, e.exp))
ModelOut(e) ==
    CASE e.strategy = "LinearFixed" -> LinearFixed(e.x, e.y, e.n, RfA(e))
      [] e.strategy = "ExpFixed" -> ExpFixed(e.x, e.y, e.n, RfA(e), e.beta, e.exp)
      [] e.strategy = "LinearAdaptive" -> LinearAdaptiveW(e.x, e.y, e.n, e.als, e.ars)
      [] e.strategy = "ExpAdaptive" -> ExpAdaptiveW(e.x, e.y, e.n, e.als, e.ars, e.beta, e.exp)
\* smoothing fixed at its default 1 is where documentation and code agree; C06 judges windows only there
V_rfa_values(e) ==
    IF e.outcome # "ok" \/ ~e.exact \/ e.strategy \notin WindowStrategies THEN {}
    ELSE Fail(e.strategy \in {"LinearAdaptive", "ExpAdaptive"} /\ e.smooth = 1
              /\ ~WindowsAllowed(YE(e.y, e.n), e.n, RfK(e), RfA(e), e.smooth, e.als, e.ars), "C06.adaptive_windows") \cup
         Fail(e.strategy \in {"LinearAdaptive", "ExpAdaptive"} /\ e.smooth # 1
              /\ ~WindowsAllowed(YE(e.y, e.n), e.n, RfK(e), RfA(e), e.smooth, e.als, e.ars), "impl.adaptive_windows") \cup
         (IF ModelDefined(e) THEN Fail(~SeqOK(e.outy, ModelOut(e)[2], 20), "C06.value") ELSE {})


(* ---- C06: the five elementary shape functions ---------------------------------------------------
   event: [fn |-> "funfit", x0, x1, x, y0, y1 (rationals), e (rational <<p,q>>), exact, defined (names whose power is
           defined in the model), at0, at, at1: records name -> recorded value at x0, x, x1] *)
FitVal(r, name) == CASE name = "lin" -> r.lin [] name = "exp" -> r.exp [] name = "exp_xy" -> r.exp_xy
                     [] name = "exp_lin" -> r.exp_lin [] name = "lin_exp_xy" -> r.lin_exp_xy
\* blend identity on the recorded values (1e-5 fixed point, slack 3 units): blend = first * t + second * (1 - t)
BlendOK(b, first, second, t) ==
    LET lhs == F5(b) * t[2]
        rhs == F5(first) * t[1] + F5(second) * (t[2] - t[1])
    IN Abs(lhs - rhs) <= 3 * t[2]
V_funfit(e) ==
    LET t == TFrac(e.x, e.x0, e.x1)
    IN Fail(e.outcome # "ok", "C06.fit_outcome") \cup
       (IF e.outcome # "ok" THEN {} ELSE
        Fail(\E name \in FitNames : ~Near(FitVal(e.at0, name), e.y0, Tol) \/ ~Near(FitVal(e.at1, name), e.y1, Tol), "C06.fit_endpoints") \cup
        Fail(e.exact /\ \E name \in FitNames : (\E k \in 1..Len(e.defined) : e.defined[k] = name)
                /\ ~Near(FitVal(e.at, name), Fit(name, e.x, e.x0, e.y0, e.x1, e.y1, e.e), 20), "C06.fit_value") \cup
        Fail(~Near(e.at.lin, LinFit(e.x, e.x0, e.y0, e.x1, e.y1), Tol), "C06.fit_value_lin") \cup
        Fail(~BlendOK(e.at.exp_lin, e.at.lin, e.at.exp, t), "C06.fit_blend_exp_lin") \cup
        Fail(~BlendOK(e.at.lin_exp_xy, e.at.exp_xy, e.at.lin, t), "C06.fit_blend_lin_exp_xy"))

\* the exponent reaching the shape functions from the Exp strategies is the requested one (bit patterns)
V_rfa_exponent(e) ==
    IF e.outcome = "ok" /\ e.strategy \in {"ExpFixed", "ExpAdaptive"}
    THEN Fail(\E k \in 1..Len(e.fit_exps) : e.fit_exps[k] # e.exp_bits, "C06.exponent_forwarded")
    ELSE {}
V_rfa(e) == V_rfa_structure(e) \cup V_rfa_shape(e) \cup V_rfa_constant(e) \cup V_rfa_values(e) \cup V_rfa_exponent(e)

\* an oversampling factor below 2 is rejected with ValueError
V_rfa_reject(e) == Fail(e.outcome # "ValueError", "C04.reject_small_n") \cup Fail(e.outcome # "ValueError", "C20.rfa_small_n")
=============================================================================
