------------------------------ MODULE DataHome ------------------------------
(***************************************************************************)
(* Where the dataset cache lives (traffic_weaver.datasets._base:           *)
(* get_data_home, clear_data_home, and the loaders that call them).        *)
(*                                                                         *)
(* Directories are symbolic:                                               *)
(*   "default"  ~/.traffic-weaver-data                                     *)
(*   "env"      the directory named by TRAFFIC_WEAVER_DATA                 *)
(*   "arg"      an absolute path handed over as data_home=                 *)
(*   "tilde"    a path handed over as "~/..." (expanded against HOME)      *)
(* A call resolves its directory as  argument > environment > default,     *)
(* creates it if it is missing, and (clear) removes it with everything in  *)
(* it.  A remote load resolves the same way and leaves its cache file in   *)
(* the resolved directory; a second load of the same dataset finds it      *)
(* there (no download) exactly when it resolves to the same directory.     *)
(* C18's last sentence is the instance  arg = none, environment set.       *)
(***************************************************************************)
EXTENDS Naturals, FiniteSets

Dirs == {"default", "env", "arg", "tilde"}
Args == {"none", "arg", "tilde"}

VARIABLES envset,     \* TRAFFIC_WEAVER_DATA is set
          exists,     \* directories that exist
          cached      \* directories that hold the cache file of the (one) remote dataset

vars == <<envset, exists, cached>>

Resolve(e, arg) == IF arg # "none" THEN arg ELSE IF e THEN "env" ELSE "default"

Init == envset \in BOOLEAN /\ exists = {} /\ cached = {}

Acts == {[k |-> "setenv"], [k |-> "unsetenv"]}
        \cup {[k |-> kk, arg |-> a] : kk \in {"get", "clear", "fetch"}, a \in Args}

\* the state after the call and what the call reports: <<state', returned directory or "", downloaded?>>
Do(s, a) ==
    CASE a.k = "setenv" -> <<[s EXCEPT !.envset = TRUE], "", FALSE>>
      [] a.k = "unsetenv" -> <<[s EXCEPT !.envset = FALSE], "", FALSE>>
      [] a.k = "get" -> LET d == Resolve(s.envset, a.arg) IN <<[s EXCEPT !.exists = @ \cup {d}], d, FALSE>>
      [] a.k = "clear" -> LET d == Resolve(s.envset, a.arg)
                          IN <<[s EXCEPT !.exists = @ \ {d}, !.cached = @ \ {d}], "", FALSE>>
      [] a.k = "fetch" -> LET d == Resolve(s.envset, a.arg)
                          IN <<[s EXCEPT !.exists = @ \cup {d}, !.cached = @ \cup {d}], d, d \notin s.cached>>

State == [envset |-> envset, exists |-> exists, cached |-> cached]
Step(a) == LET r == Do(State, a) IN envset' = r[1].envset /\ exists' = r[1].exists /\ cached' = r[1].cached
Next == \E a \in Acts : Step(a)
Spec == Init /\ [][Next]_vars

TypeOK == envset \in BOOLEAN /\ exists \subseteq Dirs /\ cached \subseteq Dirs
CachedExists == cached \subseteq exists
\* the environment variable is only consulted when no directory is handed over, and nothing is ever created in "env" while it is unset
EnvOnlyWhenSet == [][("env" \in exists' \ exists) => envset]_vars
\* one call touches one directory
OneDirPerCall == [][Cardinality((exists' \ exists) \cup (exists \ exists') \cup (cached' \ cached) \cup (cached \ cached')) <= 2
                    /\ \A d \in Dirs : (d \in exists' \ exists \/ d \in exists \ exists') =>
                          \A d2 \in Dirs \ {d} : (d2 \in exists') = (d2 \in exists) /\ (d2 \in cached') = (d2 \in cached)]_vars
=============================================================================
