------------------------------ MODULE Search ------------------------------
(***************************************************************************)
(* Nearest-sample search: the DEFINITION (property C10).                   *)
(* x is a strictly increasing, non-empty sequence of rationals, q a        *)
(* rational; results are 0-based indices as in the implementation.         *)
(***************************************************************************)
EXTENDS Rat, FiniteSets

SetMax(S) == CHOOSE m \in S : \A k \in S : k <= m
SetMin(S) == CHOOSE m \in S : \A k \in S : m <= k

\* index of the largest element <= q; none: first index (fill) or -1
LowerIdx(x, q, fill) ==
    LET S == {i \in 1..Len(x) : RLe(x[i], q)}
    IN IF S = {} THEN (IF fill THEN 0 ELSE -1) ELSE SetMax(S) - 1

\* index of the smallest element >= q; none: last index (fill) or len(x)
HigherIdx(x, q, fill) ==
    LET S == {i \in 1..Len(x) : RGe(x[i], q)}
    IN IF S = {} THEN (IF fill THEN Len(x) - 1 ELSE Len(x)) ELSE SetMin(S) - 1

\* index of the nearest element, ties resolved to the lower one
Dist(a, b) == RAbs(RSub(a, b))
ClosestIdxDef(x, q) ==
    (CHOOSE i \in 1..Len(x) :
        \A j \in 1..Len(x) : \/ RLt(Dist(x[i], q), Dist(x[j], q))
                             \/ (Dist(x[i], q) = Dist(x[j], q) /\ i <= j)) - 1

\* the same index computed from the two one-sided neighbours (linear instead of quadratic; equality with
\* the definition is one of the lemmas checked on the bounded instance)
ClosestIdx(x, q) ==
    LET lo == LowerIdx(x, q, TRUE)  hi == HigherIdx(x, q, TRUE)
    IN IF lo = hi THEN lo
       ELSE IF RLe(RSub(q, x[lo + 1]), RSub(x[hi + 1], q)) THEN lo ELSE hi

LowerIdxs(x, qs, fill)  == [k \in 1..Len(qs) |-> LowerIdx(x, qs[k], fill)]
HigherIdxs(x, qs, fill) == [k \in 1..Len(qs) |-> HigherIdx(x, qs[k], fill)]
ClosestIdxs(x, qs)      == [k \in 1..Len(qs) |-> ClosestIdx(x, qs[k])]

Strategies == {"closest", "lower", "higher"}
FindIdxs(x, qs, strategy, fill) ==
    CASE strategy = "closest" -> ClosestIdxs(x, qs)
      [] strategy = "lower"   -> LowerIdxs(x, qs, fill)
      [] strategy = "higher"  -> HigherIdxs(x, qs, fill)

(***************************************************************************)
(* Lemmas checked on the bounded instance (sanity of the definition).      *)
(***************************************************************************)
SearchLemmas(x, q) ==
    LET lo == LowerIdx(x, q, TRUE)  hi == HigherIdx(x, q, TRUE)  c == ClosestIdx(x, q)
    IN /\ c = ClosestIdxDef(x, q)
       /\ lo <= c /\ c <= hi /\ hi - lo <= 1
       /\ lo \in 0..(Len(x) - 1) /\ hi \in 0..(Len(x) - 1)
       /\ (LowerIdx(x, q, FALSE) = -1) = RLt(q, x[1])
       /\ (HigherIdx(x, q, FALSE) = Len(x)) = RGt(q, x[Len(x)])
       /\ (\E i \in 1..Len(x) : x[i] = q) => (lo = hi /\ c = lo /\ x[lo + 1] = q)
=============================================================================
