------------------------------- MODULE Fx --------------------------------
(***************************************************************************)
(* Recorded IEEE-754 results against exact model rationals, inside TLC's   *)
(* 32-bit integers.  The harness logs a float v as <<s, hi, lo>>:          *)
(*   s = sign (-1, 0, 1), hi = floor(|v| * 10^4), lo = next five decimal   *)
(*   digits (round to nearest 1e-9), so |v| = hi*1e-4 + lo*1e-9.           *)
(* Non-finite values are logged as <<2,0,0>> (nan) / <<3,0,0>>,<<-3,0,0>>  *)
(* (inf) and are near nothing.  |v| >= 2*10^5 is logged as <<4,0,0>>.      *)
(* The model's rational n/d is expanded by long division to the same limbs *)
(* (needs d < 2*10^8) and compared with a tolerance in units of 1e-9.      *)
(***************************************************************************)
EXTENDS Rat, TLC

E4 == 10000
E5 == 100000

IsFinite(f) == f[1] \in {-1, 0, 1}
\* a real number, possibly too large for the projection (code 4): neither nan nor infinite nor a non-number
IsReal(f) == f[1] \in {-1, 0, 1, 4}

RECURSIVE Digits(_, _, _, _)
\* k further decimal digits of r/q (r < q): <<accumulated digits, remainder>>
Digits(r, q, k, acc) == IF k = 0 THEN <<acc, r>>
                        ELSE Digits((r * 10) % q, q, k - 1, acc * 10 + ((r * 10) \div q))

\* limbs <<hi, lo>> of |p| (truncated at 1e-9), p rational with |p| < 2*10^5, p[2] < 2*10^8
Limbs(p) == LET a  == Abs(p[1])
                d  == p[2]
                ip == a \div d
                f4 == Digits(a % d, d, 4, 0)
                f5 == Digits(f4[2], d, 5, 0)
            IN <<ip * E4 + f4[1], f5[1]>>

Representable(p) == /\ p[2] < 200000000 /\ Abs(p[1]) \div p[2] < 200000

\* signed difference in units of 1e-9 between two signed limb triples, when it is small;
\* returns a number > tol otherwise
LimbDiff(s1, h1, l1, s2, h2, l2, tol) ==
    IF s1 * s2 >= 0
    THEN IF Abs(h1 - h2) > 1 THEN tol + 1 ELSE Abs((h1 - h2) * E5 + (l1 - l2))
    ELSE IF h1 + h2 > 1 THEN tol + 1 ELSE (h1 + h2) * E5 + l1 + l2

\* recorded float f is within tol*1e-9 of rational p
Near(f, p, tol) ==
    /\ IsFinite(f)
    /\ Assert(Representable(p), <<"model value outside the fixed-point range (machinery)", p>>)
    /\ LET m == Limbs(p)
       IN LimbDiff(f[1], f[2], f[3], Sgn(p[1]), m[1], m[2], tol) <= tol

\* two recorded floats within tol*1e-9 of each other
NearFF(f, g, tol) ==
    \/ f = g                                   \* identical records (also: the same non-finite code on both sides)
    \/ /\ IsFinite(f) /\ IsFinite(g)
       /\ LimbDiff(f[1], f[2], f[3], g[1], g[2], g[3], tol) <= tol

NearSeq(fs, ps, tol) == /\ Len(fs) = Len(ps)
                        /\ \A i \in 1..Len(ps) : Near(fs[i], ps[i], tol)
NearSeqFF(fs, gs, tol) == /\ Len(fs) = Len(gs)
                          /\ \A i \in 1..Len(fs) : NearFF(fs[i], gs[i], tol)

\* order of recorded floats (exact on the logged 1e-9 grid; rounding to a grid is monotone)
FKey(f) == <<f[1] * f[2], f[1] * f[3]>>
FLe(f, g) == LET a == FKey(f) b == FKey(g) IN a[1] < b[1] \/ (a[1] = b[1] /\ a[2] <= b[2])
FLt(f, g) == ~FLe(g, f)
FEq(f, g) == FKey(f) = FKey(g)
FBetween(f, a, b) == (FLe(a, f) /\ FLe(f, b)) \/ (FLe(b, f) /\ FLe(f, a))
\* coarse single-limb integer value in units of 1e-5 (|v| < 2*10^4)
F5(f) == f[1] * (f[2] * 10 + (f[3] \div E4))
=============================================================================
