INIT Init
NEXT Next
CONSTANTS
  MaxX = 9
  YSet <- YT
INVARIANT Theorems
INVARIANT Emit
CHECK_DEADLOCK FALSE
