INIT Init
NEXT Next
CONSTANTS
  Family = "interp"
  MinLen = 2
  MaxLen = 4
  MaxRep = 1
INVARIANT Laws
INVARIANT Emit
CHECK_DEADLOCK FALSE
