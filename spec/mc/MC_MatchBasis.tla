---------------------------- MODULE MC_MatchBasis ---------------------------
(* The stretching kernel  out = y + ((T - I(y)) / D) * w  is affine in (y, T): weights w and denominator D depend only on
   (x, alpha, rule).  Every clause of P01 / P03 for one window - integral(out) = T, end samples unchanged, displacement
   proportional to the profile (d_i w_j = d_j w_i) - is an affine identity in (y, T); so checking it on an affine basis
   (y = 0, T = 0;  y = e_i;  T = 1) proves it on the specification for ALL real y and ALL real targets simultaneously.
   This instance does that for every rational grid of 3..MaxPts points with gaps in {1, 2, 3}, exponents 1..3 and both
   rules, checks that the kernel really is affine (superposition on sample combinations) and the profile lemmas (weights
   in [0, 1], zero at the ends, symmetric, decreasing with the distance from the centre), from which "one sign" follows. *)
EXTENDS Match, TLC
CONSTANTS MaxPts
VARIABLES g, par

RECURSIVE CumG(_, _)
CumG(gg, i) == IF i = 1 THEN 0 ELSE CumG(gg, i - 1) + gg[i - 1]
Init == /\ g \in UNION {[1..(n - 1) -> {1, 2, 3}] : n \in 3..MaxPts} /\ par = <<>>
Next == /\ par = <<>> /\ par' \in Rules \X {<<1, 1>>, <<2, 1>>, <<3, 1>>} /\ UNCHANGED g

N == Len(g) + 1
X == [i \in 1..N |-> RInt(CumG(g, i))]
ZeroY == [i \in 1..N |-> Zero]
Unit(j) == [i \in 1..N |-> IF i = j THEN One ELSE Zero]
Basis == {<<ZeroY, Zero>>, <<ZeroY, One>>} \cup {<<Unit(j), Zero>> : j \in 1..N}
K(y, t) == Stretch(X, y, t, par[1], par[2])
AddS(a, b) == [i \in 1..N |-> RAdd(a[i], b[i])]
SubS(a, b) == [i \in 1..N |-> RSub(a[i], b[i])]

ClausesOnBasis ==
    par # <<>> =>
        LET w == Weights(X, par[2])
        IN \A b \in Basis :
             LET out == K(b[1], b[2])
                 d == SubS(out, b[1])
             IN /\ TotalIntegral(X, out, par[1]) = b[2]                        \* P01 for one window
                /\ out[1] = b[1][1] /\ out[N] = b[1][N]                        \* P03 frame: end samples unchanged
                \* P03 profile: d = c * w; with a reference sample of maximal (positive) weight this is d_i w_ref = d_ref w_i
                /\ LET ref == CHOOSE i \in 1..N : \A j \in 1..N : RGe(w[i], w[j])
                   IN RGt(w[ref], Zero) /\ \A i \in 1..N : RMul(d[i], w[ref]) = RMul(d[ref], w[i])
\* the kernel is affine: K(y1 + y2, t1 + t2) = K(y1, t1) + K(y2, t2) - K(0, 0)
Affine ==
    par # <<>> =>
        \A j \in 1..N :
           LET y1 == Unit(j)  y2 == [i \in 1..N |-> RInt(i - 2)]
           IN K(AddS(y1, y2), RInt(3)) = SubS(AddS(K(y1, One), K(y2, RInt(2))), K(ZeroY, Zero))
Profile == par # <<>> => WeightLemmas(X, par[2])
=============================================================================
