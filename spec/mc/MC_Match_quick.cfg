INIT Init
NEXT Next
CONSTANTS
  Lens = {5}
  Gaps = {1, 2}
  Alphas <- AlphasQ
  YPs = {1}
INVARIANT ModelSatisfiesP01
INVARIANT ModelSatisfiesP03
INVARIANT Idempotent
INVARIANT ProfileLemmas
INVARIANT Emit
CHECK_DEADLOCK FALSE
