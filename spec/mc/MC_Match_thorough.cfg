INIT Init
NEXT Next
CONSTANTS
  Lens = {5, 6}
  Gaps = {1, 2}
  Alphas <- AlphasT
  YPs = {1, 2}
INVARIANT ModelSatisfiesP01
INVARIANT ModelSatisfiesP03
INVARIANT Idempotent
INVARIANT ProfileLemmas
INVARIANT Emit
CHECK_DEADLOCK FALSE
