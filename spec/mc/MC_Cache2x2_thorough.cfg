INIT MCInit
NEXT Next
CONSTANTS
  Procs = {"p1", "p2"}
  Probes = {"q1", "q2"}
  Datasets = {"d1", "d2"}
  NRetries = 1
  ProbeRetries = 3
  MaxLen = 1
  MaxFaults = 1
  ErrTail = FALSE
  UrlOf <- IdMap
  SlotOf <- IdMap
  FlagSet <- FlagsMain
VIEW View
INVARIANT TypeOK
INVARIANT CacheSound
INVARIANT NeverUnverified
INVARIANT OfflineWhenCached
INVARIANT ServedWhenCached
INVARIANT NeverDownloadsWhenToldNotTo
INVARIANT RetryBound
INVARIANT ErrorClassOK
INVARIANT NoCrossTalk
INVARIANT ProbeDone
PROPERTY OfflineStep
CHECK_DEADLOCK FALSE
