----------------------------- MODULE MC_Registry -----------------------------
(* TLC evaluates the DatasetRegistry invariants on the registry extracted from the working tree
   (JSON file named by the environment variable REGISTRY_FILE, written by harness/c18.py).
   There is one state; EmitReport (always true, listed first) prints the witness set of every
   invariant, so that all violated invariants are known even though TLC stops at the first. *)
EXTENDS DatasetRegistry, TLC, Json, IOUtils
VARIABLE dummy

RegistryFromFile == JsonDeserialize(IOEnv.REGISTRY_FILE)

Init == dummy = 0
Next == UNCHANGED dummy

EmitReport == PrintT(ToJson([k |-> "report", counts |-> Counts, witnesses |-> Report]))
=============================================================================
