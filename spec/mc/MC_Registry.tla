----------------------------- MODULE MC_Registry -----------------------------
(* TLC evaluates the DatasetRegistry invariants on the registry extracted from the working tree.
   RegistryData.tla is GENERATED at check time by harness/c18.py into TLC's working directory
   (RegistryData == << [name |-> ..., kind |-> ..., call |-> [...], variants |-> << ... >>], ... >>).
   There is one state; EmitReport (always true, listed first) prints the witness set of every
   invariant, so that all violated invariants are known even though TLC stops at the first.
   (The invariants mention the variable only because TLC refuses constant-level INVARIANTs.) *)
EXTENDS DatasetRegistry, RegistryData, TLC, Json
VARIABLE dummy

Init == dummy = 0
Next == UNCHANGED dummy

S(P) == dummy = 0 => P
EmitReport            == S(PrintT(ToJson([k |-> "report", counts |-> Counts, witnesses |-> Report])))
I_NamesDistinct       == S(NamesDistinct)
I_AllResolve          == S(AllResolve)
I_KindsAgree          == S(KindsAgree)
I_UrlInjective        == S(UrlInjective)
I_ChecksumInjective   == S(ChecksumInjective)
I_RemoteFileInjective == S(RemoteFileInjective)
I_SlotInjective       == S(SlotInjective)
I_RecordsComplete     == S(RecordsComplete)
I_VariantsAgree       == S(VariantsAgree)
=============================================================================
