--------------------------- MODULE MC_WeaverShape ---------------------------
(* Exhaustive exploration of the shape abstraction: all programs of up to MaxOps operations from a 6-point series
   handed in as arrays or as lists.  `act` (the operation that produced the state) and the program length are hidden
   from the fingerprint by the VIEW, so TLC explores distinct abstract states; every transition TLC generates is
   printed as one JSON line {from, act, to} (ACTION_CONSTRAINT), i.e. the whole labelled state graph. *)
EXTENDS WeaverShape, TLC, Json
CONSTANTS MaxOps, MaxLen
VARIABLES s, act, len

Init == /\ \E arr \in BOOLEAN : s = NewShape(6, arr)
        /\ act = [k |-> "construct"] /\ len = 0
Next == /\ len < MaxOps
        /\ \E a \in Acts : Enabled(s, a, MaxLen) /\ s' = Do(s, a) /\ act' = a
        /\ len' = len + 1
View == s
EmitEdge == PrintT(ToJson([from |-> s, act |-> act', to |-> s']))
P09_CallerIntact == CallerIntact(s)
P09_Lengths == LengthsSane(s)
=============================================================================
