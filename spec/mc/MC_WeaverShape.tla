--------------------------- MODULE MC_WeaverShape ---------------------------
(* Exhaustive exploration of the shape abstraction: all programs (of any length; lengths are capped at MaxLen, so the
   abstract state space is finite and every state is reached within a dozen operations) from a 6-point series handed in
   as arrays or as lists.  `act` (the operation that produced the state) is hidden from the fingerprint by the VIEW, so TLC explores distinct abstract states; every transition TLC generates is
   printed as one JSON line {from, act, to} (ACTION_CONSTRAINT), i.e. the whole labelled state graph. *)
EXTENDS WeaverShape, TLC, Json
CONSTANT MaxLen
VARIABLES s, act

Init == /\ \E arr \in BOOLEAN : s = NewShape(6, arr)
        /\ act = [k |-> "construct"]
Next == \E a \in Acts : Enabled(s, a, MaxLen) /\ s' = Do(s, a) /\ act' = a
View == s
EmitEdge == PrintT(ToJson([from |-> s, act |-> act', to |-> s']))
P09_CallerIntact == CallerIntact(s)
P09_Lengths == LengthsSane(s)
=============================================================================
