INIT Init
NEXT Next
CONSTANT Registry <- RegistryData
INVARIANT EmitReport
INVARIANT I_NamesDistinct
INVARIANT I_AllResolve
INVARIANT I_KindsAgree
INVARIANT I_UrlInjective
INVARIANT I_ChecksumInjective
INVARIANT I_RemoteFileInjective
INVARIANT I_SlotInjective
INVARIANT I_RecordsComplete
INVARIANT I_VariantsAgree
CHECK_DEADLOCK FALSE
