INIT Init
NEXT Next
CONSTANT Registry <- RegistryFromFile
INVARIANT EmitReport
INVARIANT NamesDistinct
INVARIANT AllResolve
INVARIANT KindsAgree
INVARIANT UrlInjective
INVARIANT ChecksumInjective
INVARIANT RemoteFileInjective
INVARIANT SlotInjective
INVARIANT RecordsComplete
INVARIANT VariantsAgree
CHECK_DEADLOCK FALSE
