INIT Init
NEXT Next
CONSTANTS
  MaxLen = 6
  MaxN = 4
INVARIANT Theorems
INVARIANT Emit
CHECK_DEADLOCK FALSE
