SPECIFICATION Spec
CONSTANTS
  MaxVal = 3
  MaxLen = 3
  MaxQ = 2
  Arrays <- MCArrays
  Queries <- MCQueries
INVARIANT AlgoCorrect
CHECK_DEADLOCK FALSE
