--------------------------- MODULE MC_SearchAlgo ---------------------------
EXTENDS SearchAlgo
CONSTANTS MaxVal, MaxLen, MaxQ
Lo == 0 - 2
IncInt(n)  == {s \in [1..n -> Lo..(MaxVal + Lo)] : \A i \in 1..(n - 1) : s[i] < s[i + 1]}
MCArrays   == UNION {{IntSeq(s) : s \in IncInt(n)} : n \in 1..MaxLen}
\* half-integer lattice -1 .. MaxVal+1, as k/2
HalfVals   == (2 * Lo - 2)..(2 * (MaxVal + Lo) + 2)
SortedQ(n) == {s \in [1..n -> HalfVals] : \A i \in 1..(n - 1) : s[i] <= s[i + 1]}
MCQueries  == UNION {{[i \in 1..n |-> RNorm(s[i], 2)] : s \in SortedQ(n)} : n \in 1..MaxQ}
=============================================================================
