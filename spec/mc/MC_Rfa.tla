------------------------------ MODULE MC_Rfa -------------------------------
(* Bounded instance for C04 / C05 / C06: every series on the lattice (integer abscissae with gaps from Gaps, values
   in YVals - ties and sign changes included), every n, every explicit window a in 0..n and every parameter
   combination of the four window strategies.  The specification's own output is judged by the very clauses the
   trace specification applies to recorded runs (JRfa), so the design satisfies P04-P06 on the instance; every
   behaviour is emitted for replay into the real code. *)
EXTENDS JRfa, Json
CONSTANTS MaxM, Gaps, NSet, YVals
VARIABLES xs, ys, par           \* par = [s |-> "none"] until the parameters are chosen

MCY3 == {-2, 0, 3}
MCY4 == {-2, 0, 1, 3}
RECURSIVE CumG(_, _)
CumG(g, i) == IF i = 1 THEN 0 ELSE CumG(g, i - 1) + g[i - 1]
Init == /\ \E m \in 2..MaxM : /\ xs \in {[i \in 1..m |-> CumG(g, i)] : g \in [1..(m - 1) -> Gaps]}
                              /\ ys \in [1..m -> YVals]
        /\ par = [s |-> "none"]

Combos == {[s |-> "LinearFixed", beta |-> <<0, 1>>, exp |-> <<1, 1>>, smooth |-> 1]}
          \cup {[s |-> "LinearAdaptive", beta |-> <<0, 1>>, exp |-> <<1, 1>>, smooth |-> sm] : sm \in {1, 2}}
          \cup {[s |-> "ExpFixed", beta |-> b, exp |-> <<ex, 1>>, smooth |-> 1] : b \in {<<0, 1>>, <<1, 2>>, <<1, 1>>}, ex \in {1, 2, 3}}
          \cup {[s |-> "ExpAdaptive", beta |-> b, exp |-> <<ex, 1>>, smooth |-> sm] : b \in {<<0, 1>>, <<1, 2>>}, ex \in {2, 3}, sm \in {1, 2}}
Next == /\ par.s = "none"
        /\ \E cb \in Combos, n \in NSet : \E a \in 0..n :
             par' = [s |-> cb.s, beta |-> cb.beta, exp |-> cb.exp, smooth |-> cb.smooth, n |-> n, a |-> a]
        /\ UNCHANGED <<xs, ys>>

X == IntSeq(xs)
Y == IntSeq(ys)
Adaptive == par.s \in {"LinearAdaptive", "ExpAdaptive"}
\* all window vectors floating point may produce (usually one)
WinChoices ==
    LET K == NrIntervals(X, par.n)  ye == YE(Y, par.n)  a == WindowA(par.n, One, par.a)
    IN IF ~Adaptive THEN {<< <<>>, <<>> >>}
       ELSE {w \in {<<als, ars>> : als \in [1..K -> 0..a], ars \in [1..K -> 0..a]} :
                WindowsAllowed(ye, par.n, K, a, par.smooth, w[1], w[2])}
\* cheaper enumeration of the same set: product of the per-interval sets
WinProduct ==
    LET K == NrIntervals(X, par.n)  ye == YE(Y, par.n)  a == WindowA(par.n, One, par.a)
        S(p, side) == IF p = 1 \/ p = K THEN {1} ELSE WindowSets(ye, par.n, p - 1, a, par.smooth)[side]
    IN IF ~Adaptive THEN {<< <<>>, <<>> >>}
       ELSE {<<als, ars>> : als \in {f \in [1..K -> 0..a] : \A p \in 1..K : f[p] \in S(p, 1)},
                            ars \in {f \in [1..K -> 0..a] : \A p \in 1..K : f[p] \in S(p, 2)}}

Event(w) ==
    LET base == [fn |-> "rfa", strategy |-> par.s, x |-> X, y |-> Y, n |-> par.n, a |-> par.a, alpha |-> One,
                 beta |-> par.beta, exp |-> par.exp, smooth |-> par.smooth, exact |-> TRUE, outcome |-> "ok",
                 kind |-> "ndarray1f", als |-> w[1], ars |-> w[2], xbits |-> <<>>, nthbits |-> <<>>]
        out == ModelOut(base)
    IN [base EXCEPT !.outcome = "ok"] @@ [outx |-> [i \in 1..Len(out[1]) |-> FOf(out[1][i])],
                                          outy |-> [i \in 1..Len(out[2]) |-> FOf(out[2][i])]]

\* the model's own output satisfies the structure and shape clauses (P04, P05) for every allowed window vector
ModelSatisfiesClauses ==
    par.s # "none" =>
        \A w \in WinProduct : LET e == Event(w) IN V_rfa_structure(e) \cup V_rfa_shape(e) \cup V_rfa_constant(e) = {}
\* P06, adaptive part: the side with the larger jump never gets the larger window (smoothing 1)
LargerJumpSmallerWindow ==
    (par.s # "none" /\ Adaptive /\ par.smooth = 1) =>
        LET K == NrIntervals(X, par.n)  ye == YE(Y, par.n)  a == WindowA(par.n, One, par.a)
        IN \A w \in WinProduct : \A k \in 1..(K - 2) :
              LET right == Jump(ye, par.n, k + 1)  left == Jump(ye, par.n, k)
              IN (right # Zero /\ left # Zero) =>
                    /\ (RGt(right, left) => w[2][k + 1] <= w[1][k + 1])
                    /\ (RGt(left, right) => w[1][k + 1] <= w[2][k + 1])
                    /\ w[1][k + 1] \in 1..a /\ w[2][k + 1] \in 1..a
\* P06, fixed part: the border value is the linear interpolation, at the border, between the plateau ends
BorderGeometry ==
    (par.s \in {"LinearFixed", "ExpFixed"}) =>
        LET a == WindowA(par.n, One, par.a)  h == Half(a)  n == par.n
            out == ModelOut(Event(<< <<>>, <<>> >>))
            xo == out[1]  zo == out[2]
        IN \A k \in 1..(Len(xs) - 2) :          \* interior borders: original sample k+1 (1-based) at flat k*n+1
              zo[k * n + 1] = LinFit(xo[k * n + 1], xo[k * n + 1 - h], Y[k], xo[k * n + 1 + h], Y[k + 1])
Emit == par.s # "none" =>
           PrintT(ToJson([x |-> xs, y |-> ys, s |-> par.s, n |-> par.n, a |-> par.a, beta |-> par.beta, exp |-> par.exp, smooth |-> par.smooth]))
=============================================================================
