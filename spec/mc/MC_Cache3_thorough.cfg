INIT MCInit
NEXT Next
CONSTANTS
  Procs = {"p1", "p2", "p3"}
  Probes = {"q1"}
  Datasets = {"d1"}
  NRetries = 1
  ProbeRetries = 3
  MaxLen = 2
  MaxFaults = 2
  ErrTail = FALSE
  UrlOf <- IdMap
  SlotOf <- IdMap
  FlagSet <- FlagsDef
VIEW View
INVARIANT TypeOK
INVARIANT CacheSound
INVARIANT NeverUnverified
INVARIANT OfflineWhenCached
INVARIANT ServedWhenCached
INVARIANT NeverDownloadsWhenToldNotTo
INVARIANT RetryBound
INVARIANT ErrorClassOK
INVARIANT NoCrossTalk
INVARIANT ProbeDone
PROPERTY OfflineStep
CHECK_DEADLOCK FALSE
