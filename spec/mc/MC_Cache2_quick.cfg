INIT MCInit
NEXT Next
CONSTANTS
  Procs = {"p1", "p2"}
  Probes = {"q1"}
  Datasets = {"d1"}
  NRetries = 1
  ProbeRetries = 3
  MaxLen = 1
  MaxFaults = 1
  ErrTail = FALSE
  UrlOf <- IdMap
  SlotOf <- IdMap
  FlagSet <- FlagsMain
VIEW View
ACTION_CONSTRAINT EmitEdge
INVARIANT TypeOK
INVARIANT CacheSound
INVARIANT NeverUnverified
INVARIANT OfflineWhenCached
INVARIANT ServedWhenCached
INVARIANT NeverDownloadsWhenToldNotTo
INVARIANT RetryBound
INVARIANT ErrorClassOK
INVARIANT NoCrossTalk
INVARIANT ProbeDone
INVARIANT EmitInit
PROPERTY OfflineStep
CHECK_DEADLOCK FALSE
