---------------------------- MODULE MC_CacheSim -----------------------------
(* DatasetCache under `tlc -simulate`: instances whose state graph is too large to dump (3+ processes).
   A history variable keeps the initial arguments and the labels of the steps taken; a behaviour is
   printed as one JSON line when every process and every probe has terminated. *)
EXTENDS MC_Cache
VARIABLES hist, init0

SimInit == /\ MCInit
           /\ hist = <<>>
           /\ init0 = [cfg |-> cfg, slot |-> slot, net |-> net]
SimNext == /\ Next
           /\ hist' = Append(hist, act')
           /\ UNCHANGED init0

AllDone  == \A p \in All : pc[p] \in {"done", "crashed"}
EmitHist == AllDone => PrintT(ToJson([k |-> "beh", cfg |-> init0.cfg, slot |-> init0.slot, net |-> init0.net,
                                       steps |-> hist]))
=============================================================================
