------------------------------ MODULE MC_Match ------------------------------
(* Bounded instance for C01 / C03: every grid (integer abscissae, gaps from Gaps), every admissible set of fixed
   samples, reference abscissae on the samples or a quarter beside them (below / above / exactly half-way: the tie),
   the five ways of designating fixed points, 2x2 integration rules, exponents 1..3.  On every in-scope behaviour the
   specification satisfies P01 (interval and total integrals), P03 (frame, one sign, documented profile),
   idempotence and the profile lemmas; every behaviour is emitted for replay into the real code. *)
EXTENDS Match, TLC, Json
CONSTANTS Lens, Gaps, Alphas, YPs
VARIABLES xs, cfgm, par, out          \* out: the specification's result, computed by the step that chooses the parameters

AlphasQ == {<<1, 1>>, <<2, 1>>, <<3, 1>>}
AlphasT == {<<1, 1>>, <<2, 1>>, <<3, 1>>}
RECURSIVE CumG(_, _)
CumG(g, i) == IF i = 1 THEN 0 ELSE CumG(g, i - 1) + g[i - 1]
Grids == UNION {{[i \in 1..n |-> CumG(g, i)] : g \in [1..(n - 1) -> Gaps]} : n \in Lens}
\* ascending 0-based index sets of 2 or 3 fixed samples with at least one interior sample between neighbours,
\* plus the adjacent pair {0, 1} (a window without interior sample: explored, out of the property's scope)
FixSets(n) == {s \in SUBSET (0..(n - 1)) : Cardinality(s) \in 2..3 /\ \A i \in s : \A j \in s : i < j => j - i >= 2} \cup {{0, 1}}
ModesK == {<<"search", "closest">>, <<"search", "lower">>, <<"search", "higher">>, <<"positions", "closest">>, <<"indices", "closest">>}

X == IntSeq(xs)
\* reference abscissae: the fixed samples shifted by d quarters (d = -2: exactly half-way to the lower neighbour on unit gaps)
\* For explicitly designated fixed points the reference may have MORE points than there are fixed points: one beyond the
\* last fixed sample ("tail": the reference continues past the last window) or one between the first two ("mid": the first
\* window corresponds to two reference intervals whose integrals are summed).
XRefBase == [k \in 1..Len(cfgm.fs) |-> RAdd(X[cfgm.fs[k] + 1], RNorm(cfgm.d, 4))]
XRef == CASE cfgm.extra = "tail" -> Append(XRefBase, RAdd(Last(X), RInt(1)))
          [] cfgm.extra = "mid" -> <<XRefBase[1], RAdd(X[cfgm.fs[1] + 2], <<1, 4>>)>> \o SubSeqR(XRefBase, 2, Len(XRefBase))
          [] OTHER -> XRefBase
Given == IF cfgm.mode = "positions" THEN [k \in 1..Len(cfgm.fs) |-> X[cfgm.fs[k] + 1]]
         ELSE IF cfgm.mode = "indices" THEN cfgm.fs ELSE <<>>
YPat(p) == IF p = 1 THEN [i \in 1..Len(xs) |-> RInt(IF Mod(i, 2) = 0 THEN 3 ELSE -2)]
           ELSE [i \in 1..Len(xs) |-> RInt(i - 2)]
RPat(p) == IF p = 1 THEN [k \in 1..Len(XRef) |-> RInt(IF k = 2 THEN 3 ELSE 1)]
           ELSE [k \in 1..Len(XRef) |-> RNorm(5 - 4 * k, 2)]
Fp == FixedPoints(X, XRef, cfgm.mode, cfgm.strategy, Given)
Tg(p) == Targets(XRef, RPat(p.rp), p.rrule, Fp.refidx)
InScopeCfg == ~NotSamples(X, XRef, cfgm.mode, cfgm.strategy, Given) /\ InScope(Fp)

Init == /\ xs \in Grids
        /\ cfgm = [k |-> "none"] /\ par = [k |-> "none"] /\ out = <<>>
ChooseCfg ==
    /\ cfgm.k = "none"
    /\ \E fs \in FixSets(Len(xs)), d \in {-2, -1, 0, 1}, mk \in ModesK, ex \in {"none", "tail", "mid"} :
          /\ (mk[1] = "search" => ex = "none")                                   \* every reference point selects a fixed point there
          /\ (mk[1] # "search" => d \in {0, 1})
          /\ (ex = "mid" => \A i \in fs : \A j \in fs : i < j => j - i >= 2)
          /\ cfgm' = [k |-> "cfg", fs |-> SetToSeq(fs), d |-> d, mode |-> mk[1], strategy |-> mk[2], extra |-> ex]
    /\ UNCHANGED <<xs, par, out>>
ChoosePar ==
    /\ cfgm.k = "cfg" /\ par.k = "none"
    /\ \E tr \in Rules, rr \in Rules, al \in Alphas, yp \in YPs, rp \in 1..2 :
          LET p == [k |-> "par", trule |-> tr, rrule |-> rr, alpha |-> al, yp |-> yp, rp |-> rp]
          IN /\ par' = p
             /\ out' = IF InScopeCfg THEN MatchWith(X, YPat(yp), Fp, Tg(p), tr, al) ELSE <<>>
    /\ UNCHANGED <<xs, cfgm>>
Next == ChooseCfg \/ ChoosePar

Judged == par.k = "par" /\ out # <<>>
Y == YPat(par.yp)
ModelSatisfiesP01 == Judged => P01(X, out, Fp, Tg(par), par.trule)
ModelSatisfiesP03 == Judged => P03(X, Y, out, Fp, par.alpha)
Idempotent        == Judged => MatchWith(X, out, Fp, Tg(par), par.trule, par.alpha) = out
ProfileLemmas     == Judged => \A k \in 1..(Len(Fp.fpi) - 1) : WeightLemmas(SubSeqR(X, Fp.fpi[k] + 1, Fp.fpi[k + 1] + 1), par.alpha)
Emit == par.k = "par" =>
          PrintT(ToJson([x |-> xs, fs |-> cfgm.fs, d |-> cfgm.d, mode |-> cfgm.mode, strategy |-> cfgm.strategy,
                         trule |-> par.trule, rrule |-> par.rrule, alpha |-> par.alpha, y |-> Y, xref |-> XRef,
                         yref |-> RPat(par.rp), given |-> Given, judged |-> Judged]))
=============================================================================
