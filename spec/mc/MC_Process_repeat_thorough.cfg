INIT Init
NEXT Next
CONSTANTS
  Family = "repeat"
  MinLen = 2
  MaxLen = 5
  MaxRep = 6
INVARIANT Laws
INVARIANT Emit
CHECK_DEADLOCK FALSE
