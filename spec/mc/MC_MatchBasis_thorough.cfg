INIT Init
NEXT Next
CONSTANTS
  MaxPts = 7
INVARIANT ClausesOnBasis
INVARIANT Affine
INVARIANT Profile
CHECK_DEADLOCK FALSE
