INIT Init
NEXT Next
CONSTANTS
  MaxM = 4
  Gaps = {1, 2}
  NSet = {2, 3, 4, 5}
  YVals <- MCY3
INVARIANT ModelSatisfiesClauses
INVARIANT LargerJumpSmallerWindow
INVARIANT BorderGeometry
INVARIANT Emit
CHECK_DEADLOCK FALSE
