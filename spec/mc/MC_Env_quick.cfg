INIT Init
NEXT Next
CONSTANTS
  MaxN = 3
INVARIANT P15_Model
INVARIANT SmoothLemmas
INVARIANT Emit
CHECK_DEADLOCK FALSE
