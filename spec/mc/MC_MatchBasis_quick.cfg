INIT Init
NEXT Next
CONSTANTS
  MaxPts = 5
INVARIANT ClausesOnBasis
INVARIANT Affine
INVARIANT Profile
CHECK_DEADLOCK FALSE
