INIT MCInit
NEXT MCNext
VIEW View
ACTION_CONSTRAINT EmitEdge
INVARIANT TypeOK
INVARIANT CachedExists
PROPERTY EnvOnlyWhenSet
PROPERTY OneDirPerCall
CHECK_DEADLOCK FALSE
