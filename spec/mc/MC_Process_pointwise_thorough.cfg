INIT Init
NEXT Next
CONSTANTS
  Family = "pointwise"
  MinLen = 2
  MaxLen = 5
  MaxRep = 1
INVARIANT Laws
INVARIANT Emit
CHECK_DEADLOCK FALSE
