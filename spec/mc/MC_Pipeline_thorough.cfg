INIT Init
NEXT Next
CONSTANTS
  MaxM = 4
  NSet = {2, 3, 4, 5}
  YVals <- MCY3
  MAlphas <- MA2
INVARIANT P02
INVARIANT Emit
CHECK_DEADLOCK FALSE
