INIT Init
NEXT Next
CONSTANTS
  MaxVal = 7
  MaxLen = 6
  MaxQ = 3
INVARIANT Lemmas
INVARIANT Emit
CHECK_DEADLOCK FALSE
