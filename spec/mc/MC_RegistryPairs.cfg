INIT PairInit
NEXT PairNext
CONSTANTS
  Procs = {"p1", "p2"}
  Probes = {}
  NRetries = 3
  ProbeRetries = 3
  Datasets <- RegDatasets
  UrlOf <- RegUrlOf
  SlotOf <- RegSlotOf
VIEW View
INVARIANT EmitCross
INVARIANT NoCrossTalk
INVARIANT CacheSound
INVARIANT NeverUnverified
INVARIANT OfflineWhenCached
INVARIANT RetryBound
INVARIANT PairsDone
CHECK_DEADLOCK FALSE
