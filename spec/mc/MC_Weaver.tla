----------------------------- MODULE MC_Weaver ------------------------------
(* Bounded exact instance of the Weaver state machine: from two start series, every sequence of up to Depth operations
   over a fixed alphabet of concrete domain operations, refusals and restore; optionally followed by a continuation
   recreate -> integral_match (pipeline on the transformed series).  Checks P08 / P09 (value part) / P20 as invariants
   and an action property, P02 on the transformed averages after the continuation, and emits every explored history for
   replay into a real Weaver. *)
EXTENDS Weaver, TLC, Json
CONSTANTS Depth, ContLen
VARIABLES sid, w, hist, stage          \* stage: "ops" | "recreated" | "matched"

H(p, q) == RNorm(p, q)
Starts == << [x |-> IntSeq(<<0, 1, 2, 3>>), y |-> IntSeq(<<1, 3, -2, 0>>)],
             [x |-> <<H(2, 1), H(5, 2), H(4, 1), H(9, 2)>>, y |-> IntSeq(<<0, 0, 3, -1>>)] >>

NI == 0 - 999999
Alphabet ==
    {[k |-> "append", periodic |-> p] : p \in BOOLEAN}
    \cup {[k |-> "shift_x", v |-> v] : v \in {H(2, 1), H(-3, 2)}}
    \cup {[k |-> "shift_y", v |-> v] : v \in {H(1, 1), H(-3, 1)}}
    \cup {[k |-> "scale_x", v |-> v] : v \in {H(2, 1), H(1, 2)}}
    \cup {[k |-> "scale_y", v |-> v] : v \in {H(-2, 1), H(3, 1)}}
    \cup {[k |-> "normalize_x", lo |-> Zero, hi |-> One], [k |-> "normalize_x", lo |-> H(-1, 1), hi |-> H(3, 1)]}
    \cup {[k |-> "normalize_y", lo |-> Zero, hi |-> One], [k |-> "normalize_y", lo |-> H(2, 1), hi |-> H(5, 1)]}
    \cup {[k |-> "repeat", r |-> r] : r \in {2, 3}}
    \cup {[k |-> "truncate_value", left |-> H(1, 4), right |-> H(3, 4), lr |-> TRUE, rr |-> TRUE],
          [k |-> "truncate_value", left |-> H(1, 1), right |-> H(3, 1), lr |-> FALSE, rr |-> FALSE],
          [k |-> "truncate_value", left |-> H(3, 1), right |-> H(1, 1), lr |-> FALSE, rr |-> FALSE]}      \* inverted: refused
    \cup {[k |-> "truncate_index", start |-> 1, stop |-> NI], [k |-> "truncate_index", start |-> 0, stop |-> 3],
          [k |-> "truncate_index", start |-> -1, stop |-> 2], [k |-> "truncate_index", start |-> 0, stop |-> 99]}   \* last two: refused
    \cup {[k |-> "restore_original"]}

Init == /\ sid \in 1..2 /\ w = New(Starts[sid].x, Starts[sid].y) /\ hist = <<>> /\ stage = "ops"

DoOp == /\ stage = "ops" /\ Len(hist) < Depth
        /\ \E op \in Alphabet :
              /\ ~OutOfScope(w, op)
              /\ w' = Call(w, op)
              /\ hist' = Append(hist, op)
        /\ UNCHANGED <<sid, stage>>
RecOps == {[k |-> "recreate", strategy |-> s, n |-> n, a |-> -1, alpha |-> One, beta |-> H(1, 2), exp |-> H(2, 1), smooth |-> 1] :
              s \in {"PiecewiseConstant", "LinearFixed", "ExpAdaptive"}, n \in {2, 3}}
DoRecreate ==
        /\ stage = "ops" /\ Len(w.x) <= ContLen /\ ~w.reshaped
        /\ \E op \in RecOps : ~OutOfScope(w, op) /\ w' = Call(w, op) /\ hist' = Append(hist, op)
        /\ stage' = "recreated" /\ UNCHANGED sid
DoMatch ==
        /\ stage = "recreated"
        /\ \E tr \in Rules : LET op == [k |-> "integral_match", trule |-> tr, rrule |-> "rectangle", alpha |-> One]
                             IN w' = Call(w, op) /\ hist' = Append(hist, op)
        /\ stage' = "matched" /\ UNCHANGED sid
Next == DoOp \/ DoRecreate \/ DoMatch

vars == <<sid, w, hist, stage>>
\* P08 / P09 value part as state invariants
P08_WorkingIsReference == WorkingIsReference(w)
P09_WellFormed == WellFormed(w)
\* frames as an action property: the last operation of hist' led from w to w'
P08_P09_P20_Frames == [][StepFrames(w, hist'[Len(hist')], w')]_vars
\* P02 on the transformed averages after any history: the matched result's integral over every reference interval
P02_AfterHistory ==
    stage = "matched" =>
        LET n == hist[Len(hist) - 1].n  tr == hist[Len(hist)].trule
        IN \A k \in 1..(Len(w.rx) - 1) :
              TotalIntegral(SubSeqR(w.x, (k - 1) * n + 1, k * n + 1), SubSeqR(w.y, (k - 1) * n + 1, k * n + 1), tr)
                 = RMul(w.ry[k], RSub(w.rx[k + 1], w.rx[k]))
\* keeps long (simulated) histories inside TLC's 32-bit rationals and the series short
SmallSeq(q) == \A i \in 1..Len(q) : Abs(q[i][1]) < 20000 /\ q[i][2] < 20000
SafeMagnitude == /\ Len(w.x) <= 30 /\ Len(w.rx) <= 30
                 /\ SmallSeq(w.x) /\ SmallSeq(w.y) /\ SmallSeq(w.rx) /\ SmallSeq(w.ry) /\ SmallSeq(w.ox) /\ SmallSeq(w.oy)
Emit == hist # <<>> => PrintT(ToJson([start |-> Starts[sid], hist |-> hist, stage |-> stage]))
=============================================================================
