INIT Init
NEXT Next
CONSTANTS
  Depth = 3
  ContLen = 12
INVARIANT P08_WorkingIsReference
INVARIANT P09_WellFormed
INVARIANT P02_AfterHistory
INVARIANT Emit
PROPERTY P08_P09_P20_Frames
CHECK_DEADLOCK FALSE
