------------------------------- MODULE MC_Env -------------------------------
(* Bounded instance for C15 / C16.  Noise: every signal over {-3,-1,0,2,4} of 2..MaxN samples (constant, non-constant and
   sign-changing ones), every way of giving the level (decibel / linear / std, scalar or per sample), two draws of the
   environment: the result differs from the signal exactly by the draw, scale^2 * ratio = mean(a^2), and the lattice
   contains signals with mean(a^2) # mean(a)^2 (where a wrong power definition shows).  Smoothing: lemmas on the
   environment constraint (s = 0 forces the identity, the constraint is monotone in s, the default condition is
   len * variance >= 0).  Every noise behaviour is emitted for replay with the generator boundary recorded. *)
EXTENDS Env, TLC, Json
CONSTANTS MaxN
VARIABLES sig, cfg

SVals == {-3, -1, 0, 2, 4}
Init == /\ sig \in UNION {[1..n -> SVals] : n \in 2..MaxN} /\ cfg = [mode |-> "none"]
A == IntSeq(sig)
Levels ==
    {[mode |-> "db", snr |-> <<RInt(d)>>, std |-> One] : d \in {-20, -10, 0, 10, 20, 30}}
    \cup {[mode |-> "linear", snr |-> <<r>>, std |-> One] : r \in {<<1, 4>>, One, RInt(4), RInt(100)}}
    \* a level AND an explicit std in one call: the level decides ("... or the given std when no SNR is given"; seed C15j)
    \cup {[mode |-> "db", snr |-> <<RInt(d)>>, std |-> RInt(2)] : d \in {0, 10}}
    \cup {[mode |-> "linear", snr |-> <<RInt(4)>>, std |-> <<1, 2>>]}
    \cup {[mode |-> "std", snr |-> <<One>>, std |-> s] : s \in {<<1, 2>>, RInt(2)}}
    \cup {[mode |-> "db", snr |-> [i \in 1..Len(sig) |-> RInt(IF Mod(i, 2) = 0 THEN 20 ELSE 0)], std |-> One],
          [mode |-> "linear", snr |-> [i \in 1..Len(sig) |-> RInt(i * i)], std |-> One]}
Draws == {[i \in 1..Len(sig) |-> IF Mod(i, 2) = 0 THEN <<1, 2>> ELSE RInt(-1)], [i \in 1..Len(sig) |-> RNorm(i - 2, 4)]}
Next == /\ cfg.mode = "none" /\ \E lv \in Levels, dr \in Draws : cfg' = lv @@ [draw |-> dr] /\ UNCHANGED sig

NonZero == \E i \in 1..Len(sig) : sig[i] # 0
P15_Model ==
    (cfg.mode # "none" /\ NonZero) =>
        /\ \A i \in 1..Len(sig) : RSub(NoiseResult(A, cfg.draw)[i], A[i]) = cfg.draw[i]
        /\ (cfg.mode # "std" =>
              \A i \in 1..Len(sig) :
                 RMul(NoiseScale2(A, cfg.mode, cfg.snr, cfg.std, i), Ratio(cfg.mode, IF Len(cfg.snr) = 1 THEN cfg.snr[1] ELSE cfg.snr[i])) = MeanSqOf(A))
        /\ (cfg.mode = "std" => NoiseScale2(A, cfg.mode, cfg.snr, cfg.std, 1) = RMul(cfg.std, cfg.std))
\* lemmas on the smoothing constraint, on the same small lattice
SmoothLemmas ==
    cfg.mode = "none" =>
        /\ \A y2 \in [1..Len(sig) -> {-1, 0, 2}] : SmoothAllowed(A, IntSeq(y2), Zero) => IntSeq(y2) = A
        /\ \A y2 \in [1..Len(sig) -> {-1, 0, 2}] : SmoothAllowed(A, IntSeq(y2), RInt(4)) => SmoothAllowed(A, IntSeq(y2), RInt(9))
        /\ SmoothAllowed(A, A, Zero)
        /\ RGe(DefaultS(A), Zero)
Emit == cfg.mode # "none" /\ NonZero =>
           PrintT(ToJson([a |-> sig, mode |-> cfg.mode, snr |-> cfg.snr, std |-> cfg.std, draw |-> cfg.draw,
                          power_differs |-> (MeanSqOf(A) # RMul(MeanOf(A), MeanOf(A)))]))
=============================================================================
