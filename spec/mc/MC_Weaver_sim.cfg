INIT Init
NEXT Next
CONSTANTS
  Depth = 8
  ContLen = 12
CONSTRAINT SafeMagnitude
INVARIANT P08_WorkingIsReference
INVARIANT P09_WellFormed
INVARIANT P02_AfterHistory
INVARIANT Emit
CHECK_DEADLOCK FALSE
