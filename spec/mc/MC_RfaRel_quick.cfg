INIT Init
NEXT Next
CONSTANTS
  MaxM = 3
  NSet = {3, 4}
  YVals <- MCY3
  Maps <- MapsQ
INVARIANT Relations
INVARIANT Emit
CHECK_DEADLOCK FALSE
