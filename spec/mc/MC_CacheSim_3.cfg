INIT SimInit
NEXT SimNext
CONSTANTS
  Procs = {"p1", "p2", "p3"}
  Probes = {"q1"}
  Datasets = {"d1"}
  NRetries = 1
  ProbeRetries = 3
  MaxLen = 2
  MaxFaults = 3
  ErrTail = FALSE
  UrlOf <- IdMap
  SlotOf <- IdMap
  FlagSet <- FlagsDef
INVARIANT TypeOK
INVARIANT CacheSound
INVARIANT NeverUnverified
INVARIANT OfflineWhenCached
INVARIANT ServedWhenCached
INVARIANT NeverDownloadsWhenToldNotTo
INVARIANT RetryBound
INVARIANT ErrorClassOK
INVARIANT NoCrossTalk
INVARIANT ProbeDone
INVARIANT EmitHist
CHECK_DEADLOCK FALSE
