SPECIFICATION Spec
CONSTANTS
  MaxVal = 5
  MaxLen = 5
  MaxQ = 3
  Arrays <- MCArrays
  Queries <- MCQueries
INVARIANT AlgoCorrect
CHECK_DEADLOCK FALSE
