INIT Init
NEXT Next
CONSTANTS
  MaxN = 4
INVARIANT P15_Model
INVARIANT SmoothLemmas
INVARIANT Emit
CHECK_DEADLOCK FALSE
