----------------------------- MODULE MC_Search -----------------------------
(* Exhaustive lattice of (array, sorted query list) pairs for C10: checks the lemmas of the
   definition and emits every pair as JSON for replay into the real code. *)
EXTENDS Search, TLC, Json
CONSTANTS MaxVal, MaxLen, MaxQ
VARIABLES xs, qs            \* integer array; doubled (half-integer) queries; <<>> = not chosen yet

\* element lattice -2 .. MaxVal-2 (negative elements and a zero at an interior position included)
Lo == 0 - 2
IncInt(n)  == {s \in [1..n -> Lo..(MaxVal + Lo)] : \A i \in 1..(n - 1) : s[i] < s[i + 1]}
HalfVals   == (2 * Lo - 2)..(2 * (MaxVal + Lo) + 2)
SortedQ(n) == {s \in [1..n -> HalfVals] : \A i \in 1..(n - 1) : s[i] <= s[i + 1]}

Init == xs \in UNION {IncInt(n) : n \in 1..MaxLen} /\ qs = <<>>
Next == /\ qs = <<>> /\ qs' \in UNION {SortedQ(n) : n \in 1..MaxQ} /\ UNCHANGED xs

X == IntSeq(xs)
Q == [i \in 1..Len(qs) |-> RNorm(qs[i], 2)]
Lemmas == qs # <<>> => \A k \in 1..Len(qs) : SearchLemmas(X, Q[k])
Emit   == qs # <<>> => PrintT(ToJson([x |-> xs, q2 |-> qs]))
=============================================================================
