----------------------------- MODULE MC_Arrays -----------------------------
(* Bounded instance for C17: every array over the value lattice up to MaxLen, every n in 1..MaxN, every
   direction.  Checks the theorems of Arrays.tla and emits each (a, x, n, dir) for replay. *)
EXTENDS Arrays, TLC, Json
CONSTANTS MaxLen, MaxN
VARIABLES a, n, dir

Vals == {-2, 0, 1, 3}
Init == /\ a \in UNION {[1..k -> Vals] : k \in 1..MaxLen}
        /\ n = 0 /\ dir = "none"
Next == /\ n = 0 /\ n' \in 1..MaxN /\ dir' \in Dirs /\ UNCHANGED a

\* a strictly increasing, non-uniform abscissa derived from a: partial sums of |a_k| + 1
RECURSIVE Cum(_, _)
Cum(s, i) == IF i = 0 THEN 0 ELSE Cum(s, i - 1) + Abs(s[i]) + 1
X  == [i \in 1..Len(a) |-> RInt(Cum(a, i))]
A  == IntSeq(a)

Theorems ==
    n > 0 => /\ RoundTrip(X, A, n)
             /\ EveryNth(A, n)
             /\ ExtendKeepsMiddle(A, n, dir)
             /\ Len(ExtendLinspace(A, n, dir, RInt(-5), <<7, 2>>)) = Len(a) + (IF dir = "both" THEN 2 * n ELSE n)
             /\ (Len(a) > n => LET e == ExtendLinspace(X, n, "both", None, None)
                               IN StrictlyIncreasing(e) /\ SubSeqR(e, n + 1, n + Len(a)) = X)
             /\ LET t == To2D(A, n) IN \A i \in 0..(Len(t) - 1) : \A j \in 0..(n - 1) :
                    i * n + j < Len(a) => IvGet(A, n, i, j) = t[i + 1][j + 1]
Emit == n > 0 => PrintT(ToJson([a |-> a, x |-> [i \in 1..Len(a) |-> Cum(a, i)], n |-> n, dir |-> dir]))
=============================================================================
