----------------------------- MODULE MC_FunFit -----------------------------
(* Bounded instance for the shape functions (C06): all x0 < x1 and x0 <= x <= x1 on an integer lattice, anchor values in
   -3..3, exponents 1/2, 1, 3/2, 2, 5/2, 3, 4 (half-integers where the ratios are perfect squares).  Checks the
   theorems of FunFit.tla and emits every argument tuple for replay. *)
EXTENDS FunFit, TLC, Json
CONSTANTS MaxX, YSet
VARIABLES p, q             \* p = <<x0, x1, x>>, q = <<y0, y1, e>> or <<>>

YQ == {-3, 0, 2}
YT == (0 - 3)..3
Exps == {<<1, 2>>, <<1, 1>>, <<3, 2>>, <<2, 1>>, <<5, 2>>, <<3, 1>>, <<4, 1>>}
Init == /\ p \in {t \in (0..MaxX) \X (0..MaxX) \X (0..MaxX) : t[1] < t[2] /\ t[1] <= t[3] /\ t[3] <= t[2]}
        /\ q = <<>>
Next == /\ q = <<>> /\ q' \in YSet \X YSet \X Exps /\ UNCHANGED p

x0 == RInt(p[1])
x1 == RInt(p[2])
xx == RInt(p[3])
y0 == RInt(q[1])
y1 == RInt(q[2])
ee == q[3]
Defined(name) == CASE name \in {"exp", "exp_lin"} -> PowDefined(TFrac(xx, x0, x1), ee)
                   [] name \in {"exp_xy", "lin_exp_xy"} -> PowDefined(RSub(One, TFrac(xx, x0, x1)), ee)
                   [] OTHER -> TRUE
Theorems ==
    q # <<>> => \A name \in FitNames :
        /\ EndPoints(name, x0, y0, x1, y1, ee)
        /\ Defined(name) => /\ Convex(name, xx, x0, y0, x1, y1, ee)
                            /\ AffineInAnchors(name, xx, x0, y0, x1, y1, ee)
Emit == q # <<>> => PrintT(ToJson([x0 |-> p[1], x1 |-> p[2], x |-> p[3], y0 |-> q[1], y1 |-> q[2], e |-> q[3],
                                   defined |-> {name \in FitNames : Defined(name)}]))
=============================================================================
