----------------------------- MODULE MC_RfaRel ------------------------------
(* Bounded instance for C07: on every lattice series the specification's recreation commutes with changes of units,
   acts locally (radius 1, adaptive 2), and - for the non-adaptive strategies - is linear in the values with
   non-negative weights that sum to one.  All relations are checked exactly (rationals); every (series, relation) is
   emitted so that the same pair / tuple of runs is executed on the real code. *)
EXTENDS Rfa, Process, TLC, Json
CONSTANTS MaxM, NSet, YVals, Maps
VARIABLES xs, ys, rel

MCY3 == {-2, 0, 3}
MCY4 == {-2, 0, 1, 3}
H(p, q) == RNorm(p, q)
\* <<ay, by, cx, dx>>
MapsQ == {<<H(-2, 1), H(5, 1), One, Zero>>, <<H(1, 2), H(-3, 1), One, Zero>>, <<H(3, 1), Zero, One, Zero>>, <<H(-1, 1), Zero, One, Zero>>,
          <<One, H(5, 1), One, Zero>>, <<One, Zero, H(1, 2), H(4, 1)>>, <<One, Zero, H(3, 1), H(-7, 1)>>, <<One, Zero, H(2, 1), Zero>>,
          <<H(2, 1), H(-3, 1), H(2, 1), H(-7, 1)>>, <<H(1, 2), H(5, 1), H(1, 2), H(4, 1)>>}
MapsT == {<<ay, by, One, Zero>> : ay \in {H(-2, 1), H(-1, 1), H(1, 2), H(2, 1), H(3, 1)}, by \in {H(-3, 1), Zero, H(5, 1)}}
         \cup {<<One, Zero, cx, dx>> : cx \in {H(1, 2), H(2, 1), H(3, 1)}, dx \in {H(-7, 1), Zero, H(4, 1)}}
         \cup MapsQ
RECURSIVE CumG(_, _)
CumG(g, i) == IF i = 1 THEN 0 ELSE CumG(g, i - 1) + g[i - 1]
Init == /\ \E m \in 2..MaxM : /\ xs \in {[i \in 1..m |-> CumG(g, i)] : g \in [1..(m - 1) -> {1, 2}]}
                              /\ ys \in [1..m -> YVals]
        /\ rel = [k |-> "none"]

Combos == {[s |-> "PiecewiseConstant", beta |-> Zero, exp |-> One, smooth |-> 1],
           [s |-> "LinearFixed", beta |-> Zero, exp |-> One, smooth |-> 1],
           [s |-> "ExpFixed", beta |-> H(1, 2), exp |-> H(2, 1), smooth |-> 1],
           [s |-> "ExpFixed", beta |-> Zero, exp |-> H(3, 1), smooth |-> 1],
           [s |-> "LinearAdaptive", beta |-> Zero, exp |-> One, smooth |-> 1],
           [s |-> "LinearAdaptive", beta |-> Zero, exp |-> One, smooth |-> 2],
           [s |-> "ExpAdaptive", beta |-> H(1, 2), exp |-> H(2, 1), smooth |-> 1]}
IsAdaptive(cb) == cb.s \in {"LinearAdaptive", "ExpAdaptive"}
Rels == UNION {UNION {
          {[k |-> "affine", cb |-> cb, n |-> n, a |-> a, map |-> mp] : mp \in Maps, cb \in Combos}
          \cup {[k |-> "local", cb |-> cb, n |-> n, a |-> a, j |-> j, delta |-> d] : cb \in Combos, j \in 0..(Len(ys) - 1), d \in {1, -3}}
          \cup {[k |-> "linear", cb |-> cb, n |-> n, a |-> a] : cb \in {c \in Combos : ~IsAdaptive(c)}}
          \cup {[k |-> "weights", cb |-> cb, n |-> n, a |-> a] : cb \in {c \in Combos : ~IsAdaptive(c)}}
        : a \in {2, n}} : n \in NSet}
Next == /\ rel.k = "none" /\ rel' \in Rels /\ UNCHANGED <<xs, ys>>

X == IntSeq(xs)
Y == IntSeq(ys)
Run(cb, x, y, n, a) ==
    CASE cb.s = "PiecewiseConstant" -> PiecewiseConstant(x, y, n)
      [] cb.s = "LinearFixed" -> LinearFixed(x, y, n, WindowA(n, One, a))
      [] cb.s = "ExpFixed" -> ExpFixed(x, y, n, WindowA(n, One, a), cb.beta, cb.exp)
      [] cb.s = "LinearAdaptive" -> LinearAdaptive(x, y, n, WindowA(n, One, a), cb.smooth)
      [] cb.s = "ExpAdaptive" -> ExpAdaptive(x, y, n, WindowA(n, One, a), cb.smooth, cb.beta, cb.exp)
Aff(s, a, b) == [i \in 1..Len(s) |-> RAdd(RMul(a, s[i]), b)]
Unit(m, j) == [i \in 1..m |-> IF i = j THEN One ELSE Zero]
Y2 == [i \in 1..Len(ys) |-> Y[Len(ys) + 1 - i]]
AddSeq(s, t) == [i \in 1..Len(s) |-> RAdd(s[i], t[i])]

Relations ==
    CASE rel.k = "affine" ->
            LET base == Run(rel.cb, X, Y, rel.n, rel.a)
                mp == rel.map
                img == Run(rel.cb, Aff(X, mp[3], mp[4]), Aff(Y, mp[1], mp[2]), rel.n, rel.a)
            IN img = <<Aff(base[1], mp[3], mp[4]), Aff(base[2], mp[1], mp[2])>>
      [] rel.k = "local" ->
            LET base == Run(rel.cb, X, Y, rel.n, rel.a)[2]
                y2 == [Y EXCEPT ![rel.j + 1] = RAdd(@, RInt(rel.delta))]
                pert == Run(rel.cb, X, y2, rel.n, rel.a)[2]
                radius == IF IsAdaptive(rel.cb) THEN 2 ELSE 1
            IN \A i \in 1..Len(base) : Abs((i - 1) \div rel.n - rel.j) > radius => base[i] = pert[i]
      [] rel.k = "linear" ->
            Run(rel.cb, X, AddSeq(Y, Y2), rel.n, rel.a)[2] = AddSeq(Run(rel.cb, X, Y, rel.n, rel.a)[2], Run(rel.cb, X, Y2, rel.n, rel.a)[2])
      [] rel.k = "weights" ->
            LET m == Len(ys)
                resp == [j \in 1..m |-> Run(rel.cb, X, Unit(m, j), rel.n, rel.a)[2]]
            IN \A i \in 1..Len(resp[1]) :
                  /\ RSum([j \in 1..m |-> resp[j][i]]) = One
                  /\ \A j \in 1..m : RGe(resp[j][i], Zero)
                  /\ \A j \in 1..m : Abs((i - 1) \div rel.n - (j - 1)) > 1 => resp[j][i] = Zero
      [] OTHER -> TRUE
Emit == rel.k # "none" => PrintT(ToJson([x |-> xs, y |-> ys, rel |-> rel]))
=============================================================================
