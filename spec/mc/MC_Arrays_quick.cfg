INIT Init
NEXT Next
CONSTANTS
  MaxLen = 4
  MaxN = 3
INVARIANT Theorems
INVARIANT Emit
CHECK_DEADLOCK FALSE
