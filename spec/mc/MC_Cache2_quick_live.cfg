SPECIFICATION MCSpec
CONSTANTS
  Procs = {"p1", "p2"}
  Probes = {"q1"}
  Datasets = {"d1"}
  NRetries = 1
  ProbeRetries = 3
  MaxLen = 1
  MaxFaults = 1
  ErrTail = FALSE
  UrlOf <- IdMap
  SlotOf <- IdMap
  FlagSet <- FlagsMain
INVARIANT TypeOK
INVARIANT CacheSound
INVARIANT NeverUnverified
INVARIANT OfflineWhenCached
INVARIANT ServedWhenCached
INVARIANT NeverDownloadsWhenToldNotTo
INVARIANT RetryBound
INVARIANT ErrorClassOK
INVARIANT NoCrossTalk
INVARIANT ProbeDone
PROPERTY LaterLoadSucceeds
PROPERTY OfflineStep
CHECK_DEADLOCK FALSE
