INIT MCInit
NEXT Next
CONSTANTS
  Procs = {"p1"}
  Probes = {"q1"}
  Datasets = {"d1"}
  NRetries = 3
  ProbeRetries = 3
  MaxLen = 6
  MaxFaults = 6
  ErrTail = TRUE
  UrlOf <- IdMap
  SlotOf <- IdMap
  FlagSet <- FlagsAll
VIEW View
ACTION_CONSTRAINT EmitEdge
INVARIANT TypeOK
INVARIANT CacheSound
INVARIANT NeverUnverified
INVARIANT OfflineWhenCached
INVARIANT ServedWhenCached
INVARIANT NeverDownloadsWhenToldNotTo
INVARIANT RetryBound
INVARIANT ErrorClassOK
INVARIANT NoCrossTalk
INVARIANT ProbeDone
INVARIANT EmitInit
PROPERTY OfflineStep
CHECK_DEADLOCK FALSE
