----------------------------- MODULE MC_Process -----------------------------
(* Bounded instances for C11 / C12 / C13 / C14: every series on a small lattice (half-integer abscissae with
   gaps 1/2, 1, 3/2 starting at 0 or 2; values in {-2, 1, 3}) with every operation parameter of the selected
   family.  Checks the laws of Process.tla and emits each (series, operation) for replay into the real code. *)
EXTENDS Process, TLC, Json
CONSTANTS Family, MinLen, MaxLen, MaxRep
VARIABLES x2, y, op          \* x2: doubled abscissae (integers); op: record, [k |-> "none"] before the choice

Gaps == {1, 2, 3}
RECURSIVE CumG(_, _, _)
CumG(x0, g, i) == IF i = 1 THEN x0 ELSE CumG(x0, g, i - 1) + g[i - 1]
XSeqs(n) == {[i \in 1..n |-> CumG(x0, g, i)] : x0 \in {0, 4, 0 - 2}, g \in [1..(n - 1) -> Gaps]}
YVals == {-2, 1, 3}
\* all value patterns for short series, three characteristic ones (ramp, zigzag, ties) for longer ones
YSeqs(n) == IF n <= 3 THEN [1..n -> YVals]
            ELSE {[i \in 1..n |-> i - 2], [i \in 1..n |-> IF Mod(i, 2) = 0 THEN 3 ELSE -2], [i \in 1..n |-> IF i <= 2 THEN 1 ELSE 3]}
Canon(n) == [i \in 1..n |-> i - 2]

X == [i \in 1..Len(x2) |-> RNorm(x2[i], 2)]
Y == IntSeq(y)

Init == /\ \E n \in MinLen..MaxLen : x2 \in XSeqs(n) /\ y \in YSeqs(n)
        /\ op = [k |-> "none"]

\* half-integer lattice from one below the first to one above the last abscissa (doubled)
Around == (x2[1] - 2)..(x2[Len(x2)] + 2)
Ratios == (-1)..5                                   \* quarters
NB == 0 - 999999

Ops ==
    CASE Family = "repeat" ->
            UNION {{[k |-> "repeat", a |-> a, b |-> b] : b \in {c \in 1..MaxRep : a * c <= 12}} : a \in 1..MaxRep}
      [] Family = "truncate" ->
            IF y # Canon(Len(y)) THEN {}
            ELSE {[k |-> "truncate", l2 |-> l, r2 |-> r, ratio |-> FALSE] : l \in Around, r \in Around}
                 \cup {[k |-> "truncate", l2 |-> l, r2 |-> r, ratio |-> TRUE] : l \in Ratios, r \in Ratios}
                 \cup {[k |-> "slice_value", s2 |-> s, e2 |-> t, step |-> st] :
                          s \in Around \cup {NB}, t \in Around \cup {NB}, st \in {1, 2}}
                 \cup {[k |-> "slice_index", s |-> s, e |-> t, step |-> st] :
                          s \in (-1)..Len(y), t \in ((-2)..(Len(y) + 1)) \cup {NB}, st \in {1, 2, -1, -2}}
      [] Family = "interp" ->
            {[k |-> "interp", q2 |-> q, left |-> lf] :
                 q \in {[i \in 1..3 |-> a + (i - 1) * d] : a \in Around, d \in {0, 1, 3}} \cup {x2}, lf \in {NB, 7, 0}}
            \cup {[k |-> "winterp", n |-> n] : n \in 2..6}
            \cup {[k |-> "wgrid", q2 |-> q] : q \in {x2, <<x2[1], x2[Len(x2)]>>, <<x2[1], x2[1] + 1, x2[Len(x2)]>>,
                                                     <<x2[1] + 1, x2[Len(x2)]>>, <<x2[1], x2[Len(x2)] + 1>>}}
      [] Family = "pointwise" ->
            {[k |-> "trend", c |-> c, normalized |-> nm] : c \in {<<0, 0, 0>>, <<1, 2, 0>>, <<0, -1, 1>>, <<-3, 0, 2>>}, nm \in BOOLEAN}
            \cup {o \in {[k |-> "normalize", lo |-> lo, hi |-> hi] : lo \in {-3, 0}, hi \in {0, 1, 5}} : o.lo < o.hi}
            \cup {[k |-> "shiftscale", o |-> o, v2 |-> v] : o \in {"shift_x", "shift_y", "scale_x", "scale_y"}, v \in {-6, -2, 1, 4}}

Next == /\ op.k = "none" /\ op' \in Ops /\ UNCHANGED <<x2, y>>

H(v) == RNorm(v, 2)
Laws ==
    CASE op.k = "repeat" -> RepeatLaws(X, Y, op.a, op.b)
      [] op.k = "truncate" -> (~op.ratio => TruncateLaws(X, H(op.l2), H(op.r2)))
      [] op.k = "interp" -> InterpLaws(X, Y)
      [] op.k = "normalize" -> (Cardinality({y[i] : i \in 1..Len(y)}) > 1 =>
                                 NormalizeLaws(Y, RInt(op.lo), RInt(op.hi)) /\ NormalizeLaws(X, RInt(op.lo), RInt(op.hi)))
      [] op.k = "trend" ->
            \* a zero trend is the identity; trends add up
            /\ Trend(X, Y, <<Zero, Zero, Zero>>, op.normalized) = <<X, Y>>
            /\ LET c == IntSeq(op.c)  d == <<One, RInt(-2), RInt(3)>>
                   cd == [i \in 1..3 |-> RAdd(c[i], d[i])]
                   t1 == Trend(X, Y, c, op.normalized)
               IN Trend(t1[1], t1[2], d, op.normalized) = Trend(X, Y, cd, op.normalized)
      [] OTHER -> TRUE
Emit == op.k # "none" => PrintT(ToJson([x2 |-> x2, y |-> y, op |-> op]))
=============================================================================
