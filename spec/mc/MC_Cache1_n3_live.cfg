SPECIFICATION MCSpec
CONSTANTS
  Procs = {"p1"}
  Probes = {"q1"}
  Datasets = {"d1"}
  NRetries = 3
  ProbeRetries = 3
  MaxLen = 6
  MaxFaults = 6
  ErrTail = TRUE
  UrlOf <- IdMap
  SlotOf <- IdMap
  FlagSet <- FlagsAll
INVARIANT TypeOK
INVARIANT CacheSound
INVARIANT NeverUnverified
INVARIANT OfflineWhenCached
INVARIANT ServedWhenCached
INVARIANT NeverDownloadsWhenToldNotTo
INVARIANT RetryBound
INVARIANT ErrorClassOK
INVARIANT NoCrossTalk
INVARIANT ProbeDone
PROPERTY LaterLoadSucceeds
PROPERTY OfflineStep
CHECK_DEADLOCK FALSE
