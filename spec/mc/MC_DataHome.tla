---------------------------- MODULE MC_DataHome -----------------------------
(* The whole (finite) state graph of DataHome; every transition is printed as {from, act, to, ret, dl} for replay. *)
EXTENDS DataHome, TLC, Json
VARIABLE act
MCInit == Init /\ act = [k |-> "start"]
MCNext == \E a \in Acts : Step(a) /\ act' = a
View == vars
EmitEdge == LET r == Do(State, act')
            IN PrintT(ToJson([from |-> State, act |-> act', to |-> r[1], ret |-> r[2], dl |-> r[3]]))
MCSpec == MCInit /\ [][MCNext]_<<vars, act>>
=============================================================================
