INIT Init
NEXT Next
CONSTANTS
  MaxLen = 40
VIEW View
ACTION_CONSTRAINT EmitEdge
INVARIANT P09_CallerIntact
INVARIANT P09_Lengths
CHECK_DEADLOCK FALSE
