INIT Init
NEXT Next
CONSTANTS
  MaxM = 4
  NSet = {2, 3, 4, 5}
  YVals <- MCY3
  Maps <- MapsT
INVARIANT Relations
INVARIANT Emit
CHECK_DEADLOCK FALSE
