INIT Init
NEXT Next
CONSTANTS
  MaxM = 3
  NSet = {2, 3, 4}
  YVals <- MCY3
  MAlphas <- MA1
INVARIANT P02
INVARIANT Emit
CHECK_DEADLOCK FALSE
