INIT Init
NEXT Next
CONSTANTS
  MaxVal = 4
  MaxLen = 3
  MaxQ = 3
INVARIANT Lemmas
INVARIANT Emit
CHECK_DEADLOCK FALSE
