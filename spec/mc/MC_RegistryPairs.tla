--------------------------- MODULE MC_RegistryPairs ---------------------------
(* DatasetCache restricted to SEQUENTIAL HEALTHY loads of every ordered pair of remote datasets of the
   extracted registry: process p1 loads a, then p2 loads b # a, default arguments, empty cache, a network
   that always answers "ok", no crashes.  UrlOf / SlotOf are the registry's (generated module RegistryData).  NoCrossTalk must hold: what the
   second load returns is the second dataset's data.  EmitCross (always true, listed before the invariant;
   TLC runs with -continue) prints every offending pair for replay on the real loader. *)
EXTENDS DatasetCache, RegistryData, TLC, Json
(* RegistryData.tla is GENERATED at check time (harness/c18.py): RegDatasets = names of the remote datasets that reach
   the remote loader, RegUrlOf / RegSlotOf = their URL and "<folder>/<cache file name>". *)

PairInit == \E a \in Datasets, b \in Datasets :
              /\ a # b
              /\ InitWith([p \in All |-> DefaultCfg(IF p = "p1" THEN a ELSE b)],
                          [s \in Slots |-> Absent], [u \in Urls |-> <<>>])
PairNext == \/ Step("p1")
            \/ pc["p1"] = "done" /\ Step("p2")

EmitCross == (\E p \in All : res[p][1] = "data" /\ res[p][2] # cfg[p].d) =>
                PrintT(ToJson([k |-> "crosstalk", first |-> cfg["p1"].d, second |-> cfg["p2"].d,
                               got |-> res["p2"][2]]))
PairsDone == pc["p2"] = "done" => res["p2"][1] = "data"
=============================================================================
