--------------------------- MODULE MC_RegistryPairs ---------------------------
(* DatasetCache restricted to SEQUENTIAL HEALTHY loads of every ordered pair of remote datasets of the
   extracted registry: process p1 loads a, then p2 loads b # a, default arguments, empty cache, a network
   that always answers "ok", no crashes.  UrlOf / SlotOf are the registry's.  NoCrossTalk must hold: what the
   second load returns is the second dataset's data.  EmitCross (always true, listed before the invariant;
   TLC runs with -continue) prints every offending pair for replay on the real loader. *)
EXTENDS DatasetCache, TLC, Json, IOUtils

RegistryFromFile == JsonDeserialize(IOEnv.REGISTRY_FILE)
LiveRecs == {i \in 1..Len(RegistryFromFile) : /\ RegistryFromFile[i].kind = "remote"
                                               /\ RegistryFromFile[i].call.resolves
                                               /\ RegistryFromFile[i].call.loader = "remote"}
RegDatasets == {RegistryFromFile[i].name : i \in LiveRecs}
RecOf(d)    == RegistryFromFile[CHOOSE i \in LiveRecs : RegistryFromFile[i].name = d]
RegUrlOf    == [d \in RegDatasets |-> RecOf(d).call.url]
RegSlotOf   == [d \in RegDatasets |-> RecOf(d).call.folder \o "/" \o RecOf(d).call.slot]

PairInit == \E a \in Datasets, b \in Datasets :
              /\ a # b
              /\ InitWith([p \in All |-> DefaultCfg(IF p = "p1" THEN a ELSE b)],
                          [s \in Slots |-> Absent], [u \in Urls |-> <<>>])
PairNext == \/ Step("p1")
            \/ pc["p1"] = "done" /\ Step("p2")

EmitCross == (\E p \in All : res[p][1] = "data" /\ res[p][2] # cfg[p].d) =>
                PrintT(ToJson([k |-> "crosstalk", first |-> cfg["p1"].d, second |-> cfg["p2"].d,
                               got |-> res["p2"][2]]))
PairsDone == pc["p2"] = "done" => res["p2"][1] = "data"
=============================================================================
