------------------------------ MODULE MC_Cache ------------------------------
(* Bounded instances of DatasetCache for C19.  The instance is fixed by the cfg:
     Procs, Probes, Datasets, NRetries, ProbeRetries,
     FlagSet   <- one of the Flags* sets below (argument combinations of the ordinary loads),
     MaxLen    length bound of the outcome sequence of one URL (a sequence never ends with "ok":
               an exhausted sequence answers "ok" for ever),
     MaxFaults bound on the number of non-ok outcomes over all URLs (this replaces a state constraint,
               so the liveness property is checked on exactly the same graph),
     ErrTail   TRUE: sequences are  errors* payload  (single process: "k failures, then a payload"),
               FALSE: any sequence over the five outcomes.
   The labelled state graph leaves TLC as JSON: EmitInit prints every initial state, EmitEdge every
   transition as <<fingerprint pair of the source, act, fingerprint pair of the target>>. *)
EXTENDS DatasetCache, TLC, TLCExt, Json
CONSTANTS FlagSet, MaxLen, MaxFaults, ErrTail

IdMap == [d \in Datasets |-> d]

Flag(dim, force, val) == [dim |-> dim, force |-> force, val |-> val]
FlagsAll   == {Flag(a, b, c) : a \in BOOLEAN, b \in BOOLEAN, c \in BOOLEAN}
FlagsMain  == {Flag(TRUE, FALSE, TRUE), Flag(TRUE, TRUE, TRUE), Flag(TRUE, FALSE, FALSE), Flag(FALSE, FALSE, TRUE)}
FlagsDef   == {Flag(TRUE, FALSE, TRUE), Flag(TRUE, TRUE, TRUE)}

SeqsUpTo(A, n) == UNION {[1..k -> A] : k \in 0..n}
NonOk(s) == Cardinality({i \in 1..Len(s) : s[i] # "ok"})
NetSeqs ==
    IF ErrTail
    THEN {e \o t : e \in SeqsUpTo(Errors, MaxLen - 1), t \in {<<>>, <<"corrupt">>, <<"truncated">>}}
    ELSE {s \in SeqsUpTo(Outcomes, MaxLen) : s = <<>> \/ s[Len(s)] # "ok"}
RECURSIVE SumFaults(_, _)
SumFaults(n, us) == IF us = {} THEN 0 ELSE LET u == CHOOSE x \in us : TRUE IN NonOk(n[u]) + SumFaults(n, us \ {u})

MCInit ==
    \E f \in [Procs -> FlagSet], ds \in [Procs -> Datasets],
       s \in [Slots -> {"absent", "good"}], n \in [Urls -> NetSeqs] :
        /\ SumFaults(n, Urls) <= MaxFaults
        /\ InitWith([p \in All |-> IF p \in Procs
                                   THEN [d |-> ds[p], dim |-> f[p].dim, force |-> f[p].force, val |-> f[p].val,
                                         nret |-> NRetries]
                                   ELSE DefaultCfg(CHOOSE d \in Datasets : TRUE)],
                    [x \in Slots |-> IF s[x] = "absent" THEN Absent
                                     ELSE Data(CHOOSE d \in Datasets : SlotOf[d] = x, "good")],
                    n)

MCSpec == MCInit /\ [][Next]_vars /\ Fairness

Id(v) == <<TLCFP(v), TLCFP(<<v>>)>>
EmitInit == act[1] = "Init" =>
                PrintT(ToJson([k |-> "init", id |-> Id(View), cfg |-> cfg, slot |-> slot, net |-> net]))
EmitEdge == PrintT(ToJson([k |-> "edge", f |-> Id(View), a |-> act', t |-> Id(View')]))
=============================================================================
