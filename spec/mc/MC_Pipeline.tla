---------------------------- MODULE MC_Pipeline -----------------------------
(* Bounded instance for C02 (and the C08 continuation): the composition  append? -> recreate (five computable
   strategies) -> integral match against the untouched original (rectangle reference rule, default fixed points =
   samples closest to the reference abscissae) on every lattice series.  P02: under the chosen target rule the
   result's integral over every original interval equals average * width (i.e. the mean equals the average); with the
   rectangle target rule block averaging returns the original abscissae and averages. *)
EXTENDS Rfa, Match, TLC, Json
CONSTANTS MaxM, NSet, YVals, MAlphas
VARIABLES xs, ys, par, res          \* res = <<x', y'>> result of the pipeline, computed by the step choosing par

MCY3 == {-2, 0, 3}
MA1 == {<<1, 1>>}
MA2 == {<<1, 1>>, <<2, 1>>}
RECURSIVE CumG(_, _)
CumG(g, i) == IF i = 1 THEN 0 ELSE CumG(g, i - 1) + g[i - 1]
Init == /\ \E m \in 2..MaxM : /\ xs \in {[i \in 1..m |-> CumG(g, i)] : g \in [1..(m - 1) -> {1, 2}]}
                              /\ ys \in [1..m -> YVals]
        /\ par = [k |-> "none"] /\ res = <<>>

Combos == {[s |-> "PiecewiseConstant", beta |-> Zero, exp |-> One, smooth |-> 1],
           [s |-> "LinearFixed", beta |-> Zero, exp |-> One, smooth |-> 1],
           [s |-> "ExpFixed", beta |-> <<1, 2>>, exp |-> <<2, 1>>, smooth |-> 1],
           [s |-> "LinearAdaptive", beta |-> Zero, exp |-> One, smooth |-> 1],
           [s |-> "ExpAdaptive", beta |-> <<1, 2>>, exp |-> <<2, 1>>, smooth |-> 1]}
Run(cb, x, y, n, a) ==
    CASE cb.s = "PiecewiseConstant" -> PiecewiseConstant(x, y, n)
      [] cb.s = "LinearFixed" -> LinearFixed(x, y, n, WindowA(n, One, a))
      [] cb.s = "ExpFixed" -> ExpFixed(x, y, n, WindowA(n, One, a), cb.beta, cb.exp)
      [] cb.s = "LinearAdaptive" -> LinearAdaptive(x, y, n, WindowA(n, One, a), cb.smooth)
      [] cb.s = "ExpAdaptive" -> ExpAdaptive(x, y, n, WindowA(n, One, a), cb.smooth, cb.beta, cb.exp)

\* the reference series the Weaver keeps: the original, with the appended sample if requested
Ref(ap) == IF ap = "none" THEN <<IntSeq(xs), IntSeq(ys)>> ELSE AppendOneSample(IntSeq(xs), IntSeq(ys), ap = "periodic")
Pipeline(p) ==
    LET ref == Ref(p.append)
        rec == Run(p.cb, ref[1], ref[2], p.n, p.a)
        fp  == FixedPoints(rec[1], ref[1], "search", "closest", <<>>)
    IN << rec[1], MatchWith(rec[1], rec[2], fp, Targets(ref[1], ref[2], "rectangle", fp.refidx), p.trule, p.alpha) >>

Next == /\ par.k = "none"
        /\ \E cb \in Combos, n \in NSet, ap \in {"none", "periodic", "last"}, tr \in Rules, al \in MAlphas : \E a \in {2, n} :
              LET p == [k |-> "par", cb |-> cb, n |-> n, a |-> a, append |-> ap, trule |-> tr, alpha |-> al]
              IN par' = p /\ res' = Pipeline(p)
        /\ UNCHANGED <<xs, ys>>

P02 ==
    par.k = "par" =>
        LET ref == Ref(par.append)  n == par.n
            xo == res[1]  zo == res[2]
        IN /\ Len(xo) = (Len(ref[1]) - 1) * n + 1
           /\ \A k \in 1..(Len(ref[1]) - 1) :
                 TotalIntegral(SubSeqR(xo, (k - 1) * n + 1, k * n + 1), SubSeqR(zo, (k - 1) * n + 1, k * n + 1), par.trule)
                    = RMul(ref[2][k], RSub(ref[1][k + 1], ref[1][k]))
           /\ (par.trule = "rectangle" =>
                 LET av == Average(xo, zo, n)
                 IN \A k \in 1..(Len(ref[1]) - 1) : av[1][k] = ref[1][k] /\ av[2][k] = ref[2][k])
Emit == par.k = "par" =>
          PrintT(ToJson([x |-> xs, y |-> ys, s |-> par.cb.s, beta |-> par.cb.beta, exp |-> par.cb.exp, smooth |-> par.cb.smooth,
                         n |-> par.n, a |-> par.a, append |-> par.append, trule |-> par.trule, alpha |-> par.alpha]))
=============================================================================
