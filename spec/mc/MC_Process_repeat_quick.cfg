INIT Init
NEXT Next
CONSTANTS
  Family = "repeat"
  MinLen = 2
  MaxLen = 4
  MaxRep = 3
INVARIANT Laws
INVARIANT Emit
CHECK_DEADLOCK FALSE
