INIT Init
NEXT Next
CONSTANTS
  MaxX = 4
  YSet <- YQ
INVARIANT Theorems
INVARIANT Emit
CHECK_DEADLOCK FALSE
