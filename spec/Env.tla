-------------------------------- MODULE Env ---------------------------------
(***************************************************************************)
(* The two operations whose values come from outside the library, as       *)
(* environment steps constrained by what the documentation promises.       *)
(*                                                                         *)
(* Noise (process.noise_gauss): the generator is asked once for a draw     *)
(* with mean 0 and a scale determined by the signal power and the          *)
(* signal-to-noise ratio; the draw N is chosen by the environment; the     *)
(* result is a + N.                                                        *)
(* Smoothing (process.spline_smooth / Weaver.smooth): FITPACK chooses any  *)
(* values whose summed squared deviation from the input does not exceed    *)
(* the smoothing condition s.                                              *)
(***************************************************************************)
EXTENDS FunFit, Arrays

MeanOf(a)   == RDiv(RSum(a), RInt(Len(a)))
MeanSqOf(a) == RDiv(RSum([i \in 1..Len(a) |-> RMul(a[i], a[i])]), RInt(Len(a)))
Ten(k) == IF k >= 0 THEN RInt(10 ^ k) ELSE <<1, 10 ^ (0 - k)>>
\* SNR as a power ratio: decibel input (multiples of 10) or linear input
Ratio(mode, v) == IF mode = "db" THEN Ten(v[1] \div 10) ELSE v
\* the square of the scale handed to the generator, per sample (snr: one element = scalar)
NoiseScale2(a, mode, snr, std, i) ==
    IF mode = "std" THEN RMul(std, std)
    ELSE RDiv(MeanSqOf(a), Ratio(mode, IF Len(snr) = 1 THEN snr[1] ELSE snr[i]))
NoiseResult(a, N) == [i \in 1..Len(a) |-> RAdd(a[i], N[i])]

\* smoothing: the environment may return any y2 with these properties
SSE(y, y2) == RSum([i \in 1..Len(y) |-> RMul(RSub(y2[i], y[i]), RSub(y2[i], y[i]))])
SmoothAllowed(y, y2, s) == Len(y2) = Len(y) /\ RLe(SSE(y, y2), s)
DefaultS(y) == RMul(RInt(Len(y)), RSub(MeanSqOf(y), RMul(MeanOf(y), MeanOf(y))))      \* len(y) * var(y)
=============================================================================
