------------------------------ MODULE Process ------------------------------
(***************************************************************************)
(* process.py over exact rationals: repeat, trend, normalise, truncate,    *)
(* piecewise-constant and linear interpolation (the two methods whose      *)
(* values the documentation determines).  Cubic / spline interpolation,    *)
(* smoothing and noise are environment steps constrained by P13/P15/P16.   *)
(***************************************************************************)
EXTENDS Arrays, Search

(***************************************************************************)
(* repeat: values tiled; copy c (0-based) offset by c * (span + last step) *)
(***************************************************************************)
Period(x) == RAdd(RSub(Last(x), x[1]), RSub(Last(x), x[Len(x) - 1]))
Repeat(x, y, r) ==
    LET n == Len(x)
    IN << [p \in 1..(n * r) |-> RAdd(x[Mod(p - 1, n) + 1], RMul(RInt((p - 1) \div n), Period(x)))],
          [p \in 1..(n * r) |-> y[Mod(p - 1, n) + 1]] >>

(***************************************************************************)
(* trend: the callable is a polynomial c0 + c1 t + c2 t^2 (coefficients    *)
(* rational); argument x_i, or x_i / (x_last - x_first) when normalised.   *)
(***************************************************************************)
Poly(c, t) == RAdd(c[1], RAdd(RMul(c[2], t), RMul(c[3], RMul(t, t))))
TrendArg(x, i, normalized) == IF normalized THEN RDiv(x[i], RSub(Last(x), x[1])) ELSE x[i]
Trend(x, y, c, normalized) == << x, [i \in 1..Len(y) |-> RAdd(y[i], Poly(c, TrendArg(x, i, normalized)))] >>
LinearTrend(x, y, a, normalized) == Trend(x, y, <<Zero, a, Zero>>, normalized)

(***************************************************************************)
(* normalise: increasing affine map min -> lo, max -> hi                   *)
(***************************************************************************)
Normalize(a, lo, hi) ==
    LET mn == RSeqMin(a)  mx == RSeqMax(a)
    IN [i \in 1..Len(a) |-> RAdd(RMul(RDiv(RSub(a[i], mn), RSub(mx, mn)), RSub(hi, lo)), lo)]

ShiftSeq(a, s) == [i \in 1..Len(a) |-> RAdd(a[i], s)]
ScaleSeq(a, c) == [i \in 1..Len(a) |-> RMul(a[i], c)]

(***************************************************************************)
(* truncate: smallest contiguous run of samples covering [left, right]     *)
(***************************************************************************)
AbsBound(x, b, asRatio) == IF asRatio THEN RAdd(RMul(b, RSub(Last(x), x[1])), x[1]) ELSE b
TruncRejects(x, left, right, lr, rr) == RGe(AbsBound(x, left, lr), AbsBound(x, right, rr))
\* 0-based half-open index range <<from, to>> (Python slice bounds)
TruncRange(x, left, right, lr, rr) ==
    << LowerIdx(x, AbsBound(x, left, lr), TRUE), HigherIdx(x, AbsBound(x, right, rr), TRUE) + 1 >>
Truncate(x, y, left, right, lr, rr) ==
    LET r == TruncRange(x, left, right, lr, rr)
    IN << SubSeqR(x, r[1] + 1, r[2]), SubSeqR(y, r[1] + 1, r[2]) >>

\* the property's wording, independent of the index arithmetic above: from the last sample <= left (or the
\* first sample) to the first sample >= right (or the last sample)
TruncateDef(x, left, right) ==
    LET L == {i \in 1..Len(x) : RLe(x[i], left)}
        R == {i \in 1..Len(x) : RGe(x[i], right)}
        from == IF L = {} THEN 1 ELSE SetMax(L)
        to   == IF R = {} THEN Len(x) ELSE SetMin(R)
    IN <<from, to>>                       \* 1-based inclusive

(***************************************************************************)
(* Python slice semantics (a transcription of slice.indices + range) for   *)
(* 0-based start / stop / step on a sequence of length n; an omitted bound *)
(* is NoneInt; step # 0.  Returns the selected 1-based positions in order. *)
(***************************************************************************)
NoneInt == -999999
SliceStart(n, start, step) ==
    IF step > 0
    THEN IF start = NoneInt THEN 0 ELSE IF start < 0 THEN (IF start + n < 0 THEN 0 ELSE start + n)
         ELSE IF start > n THEN n ELSE start
    ELSE IF start = NoneInt THEN n - 1 ELSE IF start < 0 THEN (IF start + n < 0 THEN -1 ELSE start + n)
         ELSE IF start > n - 1 THEN n - 1 ELSE start
SliceStop(n, stop, step) ==
    IF step > 0
    THEN IF stop = NoneInt THEN n ELSE IF stop < 0 THEN (IF stop + n < 0 THEN 0 ELSE stop + n)
         ELSE IF stop > n THEN n ELSE stop
    ELSE IF stop = NoneInt THEN -1 ELSE IF stop < 0 THEN (IF stop + n < 0 THEN -1 ELSE stop + n)
         ELSE IF stop > n - 1 THEN n - 1 ELSE stop
RECURSIVE RangeFrom(_, _, _)
RangeFrom(i, stop, step) ==
    IF (step > 0 /\ i >= stop) \/ (step < 0 /\ i <= stop) THEN <<>>
    ELSE <<i + 1>> \o RangeFrom(i + step, stop, step)
SlicePositions(n, start, stop, step) == RangeFrom(SliceStart(n, start, step), SliceStop(n, stop, step), step)
SliceSeq(s, start, stop, step) ==
    LET pos == SlicePositions(Len(s), start, stop, step) IN [k \in 1..Len(pos) |-> s[pos[k]]]

(***************************************************************************)
(* interpolation                                                           *)
(***************************************************************************)
\* value of the last sample at or before q; left (or the first value) to the left of the data
InterpConstant(x, y, q, left) ==
    IF RLt(q, x[1]) THEN (IF left = None THEN y[1] ELSE left) ELSE y[LowerIdx(x, q, TRUE) + 1]
\* straight line between the two neighbouring samples; clamped outside (numpy.interp)
InterpLinear(x, y, q) ==
    IF RLe(q, x[1]) THEN y[1]
    ELSE IF RGe(q, Last(x)) THEN Last(y)
    ELSE LET i == LowerIdx(x, q, TRUE) + 1
         IN RAdd(y[i], RMul(RSub(y[i + 1], y[i]), RDiv(RSub(q, x[i]), RSub(x[i + 1], x[i]))))
InterpConstantSeq(x, y, qs, left) == [k \in 1..Len(qs) |-> InterpConstant(x, y, qs[k], left)]
InterpLinearSeq(x, y, qs) == [k \in 1..Len(qs) |-> InterpLinear(x, y, qs[k])]
\* Weaver.interpolate(n): exactly n equally spaced points spanning the same range
Linspace(a, b, n) == [k \in 1..n |-> IF k = n THEN b ELSE Lin(a, b, k - 1, n - 1)]

(***************************************************************************)
(* Theorems checked on the bounded instance (MC_Process).                  *)
(***************************************************************************)
RepeatLaws(x, y, a, b) ==
    /\ Repeat(x, y, 1) = <<x, y>>
    /\ LET ra == Repeat(x, y, a) IN Repeat(ra[1], ra[2], b) = Repeat(x, y, a * b)
    /\ StrictlyIncreasing(Repeat(x, y, a)[1])
    /\ SubSeqR(Repeat(x, y, a)[1], 1, Len(x)) = x
TruncateLaws(x, left, right) ==
    RLt(left, right) =>
        LET r == TruncRange(x, left, right, FALSE, FALSE)  d == TruncateDef(x, left, right)
        IN r[1] + 1 = d[1] /\ r[2] = d[2]
NormalizeLaws(a, lo, hi) ==
    LET z == Normalize(a, lo, hi)
    IN /\ RSeqMin(z) = lo /\ RSeqMax(z) = hi
       /\ \A i, j \in 1..Len(a) : RCmp(a[i], a[j]) = RCmp(z[i], z[j])
InterpLaws(x, y) ==
    /\ InterpLinearSeq(x, y, x) = y
    /\ InterpConstantSeq(x, y, x, None) = y
=============================================================================
