--------------------------- MODULE DatasetRegistry ---------------------------
(***************************************************************************)
(* The name -> loader registry of traffic_weaver.datasets (property C18).  *)
(*                                                                         *)
(* Registry is a CONSTANT extracted from the working tree at check time    *)
(* (harness/c18.py): one record per name documented in the four            *)
(* data_description/*.md tables,                                           *)
(*   [name, kind ("bundled" | "remote", from the table the name is in),    *)
(*    call]  where call is what load_dataset(name) did with the loaders    *)
(*    stubbed:                                                             *)
(*      [resolves, loader ("remote" | "resources" | "none"), url, checksum,*)
(*       remoteFile, folder, slot, gzip, validate, file]                   *)
(*   and variants: the same for every '-' / '_' respelling of the name.    *)
(* Fields that do not apply are "".                                        *)
(*                                                                         *)
(* Every invariant comes with its witness set, so that a violation names   *)
(* the datasets involved and can be replayed on the real loader.           *)
(***************************************************************************)
EXTENDS Naturals, Sequences, FiniteSets

CONSTANT Registry

Idx       == 1..Len(Registry)
R(i)      == Registry[i]
Remote    == {i \in Idx : R(i).kind = "remote"}
Bundled   == {i \in Idx : R(i).kind = "bundled"}
Live      == {i \in Remote : R(i).call.resolves /\ R(i).call.loader = "remote"}   \* remote names that reach the remote loader
SlotKey(c) == <<c.folder, c.slot>>

\* every documented name resolves, and to the kind of loader its table promises
UnresolvedW  == {R(i).name : i \in {j \in Idx : ~R(j).call.resolves}}
AllResolve   == UnresolvedW = {}
WrongKindW   == {R(i).name : i \in {j \in Idx : R(j).call.resolves /\
                                    R(j).call.loader # (IF R(j).kind = "remote" THEN "remote" ELSE "resources")}}
KindsAgree   == WrongKindW = {}

\* no two remote datasets share a URL, a pinned checksum, a remote file name or a cache slot
Clash(F(_))  == {<<R(p[1]).name, R(p[2]).name>> :
                    p \in {q \in Live \X Live : q[1] < q[2] /\ F(R(q[1]).call) = F(R(q[2]).call)}}
SharedUrlW        == Clash(LAMBDA c : c.url)
SharedChecksumW   == Clash(LAMBDA c : c.checksum)
SharedRemoteFileW == Clash(LAMBDA c : c.remoteFile)
SharedSlotW       == Clash(LAMBDA c : SlotKey(c))
UrlInjective        == SharedUrlW = {}
ChecksumInjective   == SharedChecksumW = {}
RemoteFileInjective == SharedRemoteFileW = {}
SlotInjective       == SharedSlotW = {}

\* every remote loader verifies the pinned checksum and names all four parts of its record
IncompleteW == {R(i).name : i \in {j \in Live : \/ ~R(j).call.validate
                                                \/ "" \in {R(j).call.url, R(j).call.checksum, R(j).call.remoteFile,
                                                           R(j).call.folder, R(j).call.slot}}}
RecordsComplete == IncompleteW = {}

\* bundled names read distinct resource files
SharedFileW == {<<R(p[1]).name, R(p[2]).name>> :
                   p \in {q \in Bundled \X Bundled : /\ q[1] < q[2]
                                                     /\ R(q[1]).call.resolves /\ R(q[2]).call.resolves
                                                     /\ R(q[1]).call.file = R(q[2]).call.file}}
FilesInjective == SharedFileW = {}

\* '-' / '_' spelling variants resolve to the same record
VariantWitness == UNION {{<<R(i).name, R(i).variants[k].name>> :
                              k \in {n \in 1..Len(R(i).variants) : R(i).variants[n].call # R(i).call}} : i \in Idx}
VariantsAgree == VariantWitness = {}

\* sizes promised by the shipped descriptions: a registry that lost names is not "all documented names"
Counts == [documented |-> Len(Registry), bundled |-> Cardinality(Bundled), remote |-> Cardinality(Remote),
           live_remote |-> Cardinality(Live)]
NamesDistinct == \A i, j \in Idx : i # j => R(i).name # R(j).name

Report == [AllResolve |-> UnresolvedW, KindsAgree |-> WrongKindW, UrlInjective |-> SharedUrlW,
           ChecksumInjective |-> SharedChecksumW, RemoteFileInjective |-> SharedRemoteFileW,
           SlotInjective |-> SharedSlotW, RecordsComplete |-> IncompleteW, FilesInjective |-> SharedFileW,
           VariantsAgree |-> VariantWitness]
=============================================================================
