--------------------------- MODULE DatasetRegistry ---------------------------
(***************************************************************************)
(* The name -> loader registry of traffic_weaver.datasets (property C18).  *)
(*                                                                         *)
(* Registry is a CONSTANT extracted from the working tree at check time    *)
(* (harness/c18.py): one record per name documented in the four            *)
(* data_description/*.md tables,                                           *)
(*   [name, kind ("bundled" | "remote", from the table the name is in),    *)
(*    call]  where call is what load_dataset(name) did with the loaders    *)
(*    stubbed:                                                             *)
(*      [resolves, loader ("remote" | "resources" | "none"), url, checksum,*)
(*       remoteFile, folder, slot, gzip, validate, file]                   *)
(*   and variants: the same for every '-' / '_' respelling of the name.    *)
(* Fields that do not apply are "".                                        *)
(*                                                                         *)
(* Every invariant is "its witness set is empty", so that a violation      *)
(* names the datasets involved and can be replayed on the real loader.     *)
(***************************************************************************)
EXTENDS Naturals, Sequences, FiniteSets

CONSTANT Registry

SlotKey(c) == <<c.folder, c.slot>>

(***************************************************************************)
(* Witness sets.  (Written over a parameter bound once: TLC rebuilds the   *)
(* constant Registry at every mention, and the clash sets mention it       *)
(* thousands of times.)                                                    *)
(***************************************************************************)
Witnesses(reg) ==
    LET Idx     == 1..Len(reg)
        Remote  == {i \in Idx : reg[i].kind = "remote"}
        Bundled == {i \in Idx : reg[i].kind = "bundled"}
        \* remote names that reach the remote loader
        Live    == {i \in Remote : reg[i].call.resolves /\ reg[i].call.loader = "remote"}
        Names(P) == {<<reg[p[1]].name, reg[p[2]].name>> : p \in P}
        Clash(F(_)) == Names({q \in Live \X Live : q[1] < q[2] /\ F(reg[q[1]].call) = F(reg[q[2]].call)})
    IN [ \* every documented name resolves ...
         AllResolve |-> {reg[i].name : i \in {j \in Idx : ~reg[j].call.resolves}},
         \* ... to the kind of loader its table promises
         KindsAgree |-> {reg[i].name : i \in {j \in Idx : reg[j].call.resolves /\
                            reg[j].call.loader # (IF reg[j].kind = "remote" THEN "remote" ELSE "resources")}},
         \* no two remote datasets share a URL, a pinned checksum, a remote file name or a cache slot
         UrlInjective        |-> Clash(LAMBDA c : c.url),
         ChecksumInjective   |-> Clash(LAMBDA c : c.checksum),
         RemoteFileInjective |-> Clash(LAMBDA c : c.remoteFile),
         SlotInjective       |-> Clash(LAMBDA c : SlotKey(c)),
         \* every remote loader verifies the pinned checksum and names all parts of its record
         RecordsComplete |-> {reg[i].name : i \in {j \in Live :
                                 \/ ~reg[j].call.validate
                                 \/ "" \in {reg[j].call.url, reg[j].call.checksum, reg[j].call.remoteFile,
                                            reg[j].call.folder, reg[j].call.slot}}},
         \* bundled names read distinct resource files (information only: not part of C18's statement)
         FilesInjective |-> Names({q \in Bundled \X Bundled : /\ q[1] < q[2]
                                                              /\ reg[q[1]].call.resolves /\ reg[q[2]].call.resolves
                                                              /\ reg[q[1]].call.file = reg[q[2]].call.file}),
         \* '-' / '_' spelling variants resolve to the same record
         VariantsAgree |-> UNION {{<<reg[i].name, reg[i].variants[k].name>> :
                                     k \in {n \in 1..Len(reg[i].variants) : reg[i].variants[n].call # reg[i].call}}
                                  : i \in Idx},
         NamesDistinct |-> {reg[i].name : i \in {j \in Idx : \E k \in Idx : k # j /\ reg[k].name = reg[j].name}},
         counts |-> [documented |-> Len(reg), bundled |-> Cardinality(Bundled), remote |-> Cardinality(Remote),
                     live_remote |-> Cardinality(Live)] ]

Report == Witnesses(Registry)
Counts == Report.counts

\* the invariants of the registry: every witness set is empty
NamesDistinct       == Report.NamesDistinct = {}
AllResolve          == Report.AllResolve = {}
KindsAgree          == Report.KindsAgree = {}
UrlInjective        == Report.UrlInjective = {}
ChecksumInjective   == Report.ChecksumInjective = {}
RemoteFileInjective == Report.RemoteFileInjective = {}
SlotInjective       == Report.SlotInjective = {}
RecordsComplete     == Report.RecordsComplete = {}
FilesInjective      == Report.FilesInjective = {}
VariantsAgree       == Report.VariantsAgree = {}
=============================================================================
