------------------------------- MODULE Match -------------------------------
(***************************************************************************)
(* Integral matching (match.py) over exact rationals, structured like the  *)
(* code: resolution of the fixed points (three ways of designating them),  *)
(* reference integrals summed between the matched reference points, the    *)
(* stretching kernel of one closed window, and the loop over windows that  *)
(* share their end samples (one Stretch per window, in order).             *)
(* Indices are 0-based where they mirror the implementation.               *)
(***************************************************************************)
EXTENDS FunFit, Arrays, Search

SetToSeq(S) == LET RECURSIVE F(_)                       \* ascending sequence of a finite set of integers
                   F(T) == IF T = {} THEN <<>> ELSE LET m == SetMin(T) IN <<m>> \o F(T \ {m})
               IN F(S)
ValSet(s) == {s[i] : i \in 1..Len(s)}
\* 0-based ascending indices of the elements of x that belong to the set vals  (np.where(np.isin(x, vals)))
IdxIn(x, vals) == SetToSeq({i - 1 : i \in {k \in 1..Len(x) : x[k] \in vals}})
\* number of distinct values
NDistinct(s) == Cardinality(ValSet(s))

Modes == {"search", "positions", "indices"}

(***************************************************************************)
(* Fixed points.  given: sequence of rationals (mode "positions") or of    *)
(* 0-based integers (mode "indices"); ignored for mode "search".           *)
(* Result: fpi = 0-based indices into x of the fixed samples, ascending;   *)
(* refidx = 0-based indices into xref of the matched reference points;     *)
(* nfp = number of distinct requested fixed abscissae.                     *)
(***************************************************************************)
ClosestRefSet(xref, pts) == {xref[ClosestIdx(xref, p) + 1] : p \in pts}
FixedPoints(x, xref, mode, strategy, given) ==
    CASE mode = "indices" ->
            LET fpi == SetToSeq(ValSet(given))
                pts == {x[fpi[k] + 1] : k \in 1..Len(fpi)}
            IN [fpi |-> fpi, refidx |-> IdxIn(xref, ClosestRefSet(xref, pts)), nfp |-> Cardinality(pts)]
      [] mode = "search" ->
            LET pts == {x[FindIdxs(x, xref, strategy, TRUE)[k] + 1] : k \in 1..Len(xref)}
            IN [fpi |-> IdxIn(x, pts), refidx |-> [k \in 1..Len(xref) |-> k - 1], nfp |-> Cardinality(pts)]
      [] mode = "positions" ->
            LET pts == ValSet(given)
            IN [fpi |-> IdxIn(x, pts), refidx |-> IdxIn(xref, ClosestRefSet(xref, pts)), nfp |-> Cardinality(pts)]

\* argument checks of the implementation (ValueError)
TooMany(x, mode, given) == mode # "search" /\ Len(given) > Len(x)
NotSamples(x, xref, mode, strategy, given) ==
    LET fp == FixedPoints(x, xref, mode, strategy, given) IN Len(fp.fpi) # fp.nfp
IndexOutOfRange(x, mode, given) == mode = "indices" /\ \E k \in 1..Len(given) : given[k] < 0 \/ given[k] >= Len(x)

\* target integral of every window: reference integrals summed between consecutive matched reference points
Targets(xref, yref, rrule, refidx) == SumOverIndices(Integral(xref, yref, rrule), refidx)

(***************************************************************************)
(* The stretching kernel of one closed window (x, y: the window's samples) *)
(***************************************************************************)
Weights(x, alpha) ==
    IF Len(x) = 2 THEN <<One, One>>
    ELSE LET c == RMul(RAdd(Last(x), x[1]), <<1, 2>>)
             d == RSub(Last(x), x[1])
         IN [i \in 1..Len(x) |-> RSub(One, RPowQ(RDiv(RMul(RInt(2), RAbs(RSub(c, x[i]))), d), alpha))]
WeightsDefined(x, alpha) ==
    Len(x) = 2 \/ alpha[2] = 1 \/
    \A i \in 1..Len(x) : PowDefined(RDiv(RMul(RInt(2), RAbs(RSub(RMul(RAdd(Last(x), x[1]), <<1, 2>>), x[i]))), RSub(Last(x), x[1])), alpha)
\* denominator of the shift scale factor, per rule
Denominator(x, w, rule) ==
    IF rule = "trapezoid"
    THEN RMul(<<1, 2>>, RSum([i \in 1..(Len(x) - 1) |-> RMul(RAdd(w[i], w[i + 1]), RSub(x[i + 1], x[i]))]))
    ELSE RSum([i \in 1..(Len(x) - 1) |-> RMul(w[i], RSub(x[i + 1], x[i]))])
Stretch(x, y, target, rule, alpha) ==
    LET w    == Weights(x, alpha)
        dP   == RSub(target, TotalIntegral(x, y, rule))
        yhat == RDiv(dP, Denominator(x, w, rule))
    IN [i \in 1..Len(y) |-> RAdd(y[i], RMul(yhat, w[i]))]

(***************************************************************************)
(* The loop over windows: window k covers samples fpi[k]..fpi[k+1]         *)
(* (0-based, both inclusive); zip() stops at the shorter list.             *)
(***************************************************************************)
NWindows(fp, targets) == IF Len(targets) < Len(fp.fpi) - 1 THEN Len(targets) ELSE Len(fp.fpi) - 1
WindowStep(x, y, s, e, target, rule, alpha) ==          \* s, e: 1-based inclusive
    LET st == Stretch(SubSeqR(x, s, e), SubSeqR(y, s, e), target, rule, alpha)
    IN [i \in 1..Len(y) |-> IF i >= s /\ i <= e THEN st[i - s + 1] ELSE y[i]]
RECURSIVE IntervalLoop(_, _, _, _, _, _, _, _)
IntervalLoop(x, y, fpi, targets, rule, alpha, k, nw) ==
    IF k > nw THEN y
    ELSE IntervalLoop(x, WindowStep(x, y, fpi[k] + 1, fpi[k + 1] + 1, targets[k], rule, alpha),
                      fpi, targets, rule, alpha, k + 1, nw)

MatchWith(x, y, fp, targets, trule, alpha) ==
    IntervalLoop(x, y, fp.fpi, targets, trule, alpha, 1, NWindows(fp, targets))
Match(x, y, xref, yref, mode, strategy, given, trule, rrule, alpha) ==
    LET fp == FixedPoints(x, xref, mode, strategy, given)
    IN MatchWith(x, y, fp, Targets(xref, yref, rrule, fp.refidx), trule, alpha)

(***************************************************************************)
(* Scope of C01 / C03: distinct fixed points that leave at least one       *)
(* interior sample per window, and a reference interval for every window   *)
(* (no two fixed points share a matched reference point).                  *)
(***************************************************************************)
InScope(fp) ==
    /\ Len(fp.fpi) >= 2
    /\ Len(fp.fpi) = fp.nfp
    /\ Len(fp.refidx) = Len(fp.fpi)
    /\ \A k \in 1..(Len(fp.fpi) - 1) : fp.fpi[k + 1] - fp.fpi[k] >= 2
AllWeightsDefined(x, fp, alpha) ==
    \A k \in 1..(Len(fp.fpi) - 1) : WeightsDefined(SubSeqR(x, fp.fpi[k] + 1, fp.fpi[k + 1] + 1), alpha)

(***************************************************************************)
(* Property clauses on an output `out` (exact version, used on the model)  *)
(***************************************************************************)
\* P01: every window's integral under the target rule equals the summed reference integrals; hence the total
P01(x, out, fp, targets, trule) ==
    /\ \A k \in 1..(Len(fp.fpi) - 1) :
          TotalIntegral(SubSeqR(x, fp.fpi[k] + 1, fp.fpi[k + 1] + 1), SubSeqR(out, fp.fpi[k] + 1, fp.fpi[k + 1] + 1), trule) = targets[k]
    /\ TotalIntegral(SubSeqR(x, fp.fpi[1] + 1, Last(fp.fpi) + 1), SubSeqR(out, fp.fpi[1] + 1, Last(fp.fpi) + 1), trule) = RSum(targets)
\* P03: frame, one sign, proportional to the documented profile
P03(x, y, out, fp, alpha) ==
    /\ \A i \in 1..Len(y) : (i < fp.fpi[1] + 1 \/ i > Last(fp.fpi) + 1) => out[i] = y[i]
    /\ \A k \in 1..Len(fp.fpi) : out[fp.fpi[k] + 1] = y[fp.fpi[k] + 1]
    /\ \A k \in 1..(Len(fp.fpi) - 1) :
          LET s == fp.fpi[k] + 1  e == fp.fpi[k + 1] + 1
              w == Weights(SubSeqR(x, s, e), alpha)
              d == [i \in 1..(e - s + 1) |-> RSub(out[s + i - 1], y[s + i - 1])]
          IN /\ \A i, j \in 1..Len(d) : RSgn(d[i]) * RSgn(d[j]) >= 0
             /\ \A i, j \in 1..Len(d) : RMul(d[i], w[j]) = RMul(d[j], w[i])
\* lemmas on the profile: zero at the ends, symmetric, maximal at the centre, within [0, 1]
WeightLemmas(x, alpha) ==
    Len(x) >= 3 =>
        LET w == Weights(x, alpha)  c == RMul(RAdd(Last(x), x[1]), <<1, 2>>)
        IN /\ w[1] = Zero /\ Last(w) = Zero
           /\ \A i \in 1..Len(x) : RGe(w[i], Zero) /\ RLe(w[i], One)
           /\ \A i, j \in 1..Len(x) : RAbs(RSub(c, x[i])) = RAbs(RSub(c, x[j])) => w[i] = w[j]
           /\ \A i, j \in 1..Len(x) : RLt(RAbs(RSub(c, x[i])), RAbs(RSub(c, x[j]))) => RGt(w[i], w[j])
=============================================================================
