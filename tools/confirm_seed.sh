#!/bin/sh
# tools/confirm_seed.sh <property id> <seed dir with patch.diff + demo.py> <check ids to run...>
# confirms: patch applies to /repo's tree (scratch copy), pinned suite still passes, demo passes on /repo and fails with the patch;
# then runs the given quick checks on the patched copy.  Prints a summary; stores nothing.
pid=$1; sd=$2; shift 2
d=$(mktemp -d /tmp/seedconf.XXXXXX)
cp -r /repo $d/repo 2>/dev/null; rm -rf $d/repo/.git
(cd $d/repo && patch -p1 -s < $sd/patch.diff) || { echo "PATCH-FAILED"; rm -rf $d; exit 2; }
echo "demo on /repo:    $(TW_SRC=/repo/src /venv/bin/python $sd/demo.py 2>&1 | tail -1 | cut -c1-100) rc=$?"
TW_SRC=/repo/src /venv/bin/python $sd/demo.py >/dev/null 2>&1; echo "  rc(unchanged)=$?"
TW_SRC=$d/repo/src /venv/bin/python $sd/demo.py >/dev/null 2>&1; echo "  rc(patched)=$?"
(cd $d/repo && /venv/bin/python -m pytest -q -p no:cacheprovider --timeout=900 --continue-on-collection-errors --junitxml=$d/j.xml > $d/t.log 2>&1)
/venv/bin/python - $d/j.xml <<'PY'
import json,sys,xml.etree.ElementTree as ET
base=json.load(open('/root/.vp/BASELINE.json'))
t=ET.parse(sys.argv[1]).getroot()
passed=set()
for tc in t.iter('testcase'):
    if not any(ch.tag in('failure','error','skipped') for ch in tc): passed.add(tc.get('classname')+'::'+tc.get('name'))
missing=[s for s in base['stable_pass'] if s not in passed]
print('  suite with patch: passed',len(passed),'baseline-missing',len(missing), missing[:3])
PY
cd /verif
for id in "$@"; do
  out=$(VERIF_REPO=$d/repo ./check $id ${TIER:-quick} 2>&1); rc=$?
  echo "  check $id rc=$rc | $(echo "$out" | grep -E '^VIOLATION' | sed 's/replay=[^ ]*//' | sort | uniq -c | sort -rn | head -3 | tr '\n' ';') $(echo "$out" | tail -1 | cut -c1-120)"
done
rm -rf $d
