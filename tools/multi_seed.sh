#!/bin/sh
# tools/multi_seed.sh <tier> <seed>...   every claimed check under other VERIF_SEED values against /repo (evidence goes to .scratch); any exit code other than 0 on the unchanged tree is a fault of the machinery.
cd "$(dirname "$0")/.."
tier=$1; shift
bad=0
for sd in "$@"; do
  for id in $(/venv/bin/python -c "import json;print(' '.join(c['property_id'] for c in json.load(open('MANIFEST.json'))['checks']))"); do
    out=$(VERIF_SEED=$sd VERIF_SCRATCH_EVIDENCE=1 ./check $id $tier 2>&1); rc=$?
    echo "seed=$sd $id rc=$rc | $(echo "$out" | tail -1 | cut -c1-150)"
    [ $rc != 0 ] && { bad=1; echo "$out" | grep -E '^VIOLATION|MACHINERY' | head -5 | cut -c1-300; }
  done
done
exit $bad
