#!/venv/bin/python
"""Regenerates /verif/MANIFEST.json from the table below (single source of truth for what is claimed)."""
import json
import os

VERIF = os.path.dirname(os.path.dirname(os.path.abspath(__file__)))
PROPS = [json.loads(l)["id"] for l in open(os.path.join(VERIF, "properties.jsonl"))]

TB = ("TLC 1.8 + CommunityModules Json/IOUtils; the Python harness only drives, projects (floats -> 1e-9 fixed point, "
      "exact rational inputs) and logs; NumPy/SciPy for environment steps")

CLAIMS = {
    "C01": dict(
        technique="TLA+ specification of integral matching (Match.tla) with property module P01 model-checked by TLC; two-stage TLC trace validation of replayed real runs",
        text="TLC checks P01 (every window's integral under the target rule equals the summed reference integrals, hence the total) "
             "exactly on every behaviour of the bounded instance (grids x fixed-sample sets x on/off-grid references incl. the tie x five "
             "ways of designating fixed points x 2x2 rules x exponents 1..3) and emits them; recorded real results are accepted when "
             "they equal the exact model (1e-8) and otherwise - and for real exponents in [0.05, 8] on grids up to 1000 samples - the "
             "integral clauses are evaluated by TLC directly on the recorded values, so a change that only redistributes the "
             "displacement raises no C01 alarm.",
        ref="DESIGN.md 4 (C01), 2.3", note=TB + "; stage-2 clause evaluation at 1e-4 resolution with slack bounding the projection error"),
    "C02": dict(
        technique="TLA+ composition Rfa o Match o Average (MC_Pipeline) with property P02 model-checked by TLC; TLC evaluates the per-interval mean clauses on recorded real pipelines",
        text="TLC checks on every lattice series x append option x five computable strategies x n x window x rule that the pipeline of the "
             "specification preserves every original average (and that block averaging returns abscissae and averages for the rectangle "
             "rule), emits each behaviour, and evaluates the mean clauses (integer sums of recorded values) on the real "
             "Weaver(...).recreate_from_average(...).integral_match(...) result, on random series up to 60 points / n up to 64 with all "
             "six strategies and real parameters, and on all 19 bundled datasets.",
        ref="DESIGN.md 4 (C02)", note=TB + "; means judged at ~1e-5 relative precision; abscissae compared as bit patterns"),
    "C03": dict(
        technique="TLA+ specification of integral matching (Match.tla) with property module P03 model-checked by TLC; two-stage TLC trace validation incl. recorded idempotence pairs",
        text="TLC checks P03 (samples outside the fixed span and fixed points unchanged, one sign per window, displacement proportional "
             "to 1-(2|x-c|/w)^alpha by cross-multiplication, profile lemmas, idempotence) exactly on every in-scope behaviour of the "
             "bounded instance; recorded real results must equal the exact model, results that differ are judged by the frame / sign / "
             "profile clauses on the recorded values, and idempotence on the recorded pair of first and second application.",
        ref="DESIGN.md 4 (C03), 2.3", note=TB + "; real exponents: frame, sign and order-level profile clauses only"),
    "C04": dict(
        technique="TLA+ specification of the recreate-from-average strategies (Rfa.tla) model-checked by TLC; TLC trace validation of replayed real runs (structure clauses)",
        text="On every lattice behaviour (series x n x window x 20 parameter combinations) TLC checks that the specification's output has "
             "the n-fold grid structure, emits the behaviour, and judges the recorded real run: NumPy 1-D float arrays of equal length "
             "(m-1)n+1, finite, abscissae = n-fold linspace of x, strictly increasing, every n-th abscissa bit-identical to the input; "
             "larger random series (m <= 60, n <= 64, int/float/list) and rejects of n < 2 go through the same judge.",
        ref="DESIGN.md 4 (C04)", note=TB),
    "C05": dict(
        technique="TLA+ specification of the window strategies (Rfa.tla) with the property's order clauses (JRfa.tla) model-checked by TLC; TLC evaluates the same clauses on recorded real runs",
        text="TLC shows that the specification's output satisfies side-wise bounds, the plateau count/contiguity and monotone runs for "
             "every allowed adaptive window vector on the lattice, and evaluates exactly these order/equality clauses on the recorded "
             "output of every replayed behaviour and of seeded random runs with real alpha/beta/exponent/smoothing (no tolerance needed: "
             "rounding to a grid is monotone). Known finding F10 (exponent < 0.13296, monotone clause) is reported as KNOWN-FINDING.",
        ref="DESIGN.md 4 (C05), 5 #10", note=TB + "; cubic spline constrained at the nodes only"),
    "C06": dict(
        technique="TLA+ closed forms (FunFit.tla) and documented geometry (Rfa.tla) model-checked by TLC; recorded values compared with the exact model by TLC",
        text="TLC checks end points, convexity and affinity of the five shape functions and the border-interpolation / larger-jump-"
             "smaller-window geometry on the model, then compares every recorded value of the replayed lattice behaviours and of random "
             "exact-parameter runs with the exact rational model (1e-8), given the recorded adaptive windows which must be among the "
             "values the specification allows; real exponents are covered by end-point / blend identities and by observing bitwise the "
             "exponent that reaches the shape functions.",
        ref="DESIGN.md 4 (C06)", note=TB + "; exact recomputation for exponents in {1/2,1,3/2,2,5/2,3,4} (shape functions) and 1..3 (strategies)"),
    "C07": dict(
        technique="TLA+ relational properties of Rfa.tla (commutation, locality, linearity, weights) model-checked by TLC; TLC judges the relations on recorded tuples of real runs",
        text="TLC proves the four relations exactly on every lattice series / unit change / perturbation / unit vector and emits each "
             "tuple of runs; the same tuples (and seeded random ones, with exactly representable maps for the adaptive strategies) are "
             "executed on the real code and TLC evaluates the relations directly on the recorded values in fixed point.",
        ref="DESIGN.md 4 (C07)", note=TB + "; relations judged at 1e-5 absolute"),
    "C08": dict(
        technique="TLA+ state machine of the Weaver (Weaver.tla) model-checked by TLC (invariants + action property over all histories up to a depth); TLC trace validation of replayed and random real histories",
        text="TLC explores every sequence of up to 2 (quick) / 3 (thorough) operations over an alphabet of 26 concrete domain operations, "
             "refusals and restore from two start series, followed by recreate + integral_match, checking working = reference while "
             "unreshaped, the reference/original frames as an action property and P02 on the transformed averages; every maximal history is "
             "replayed on a real Weaver with the state observed after each call, and TLC judges the recorded histories (and seeded random "
             "ones of length 0..8 on random series): working = reference, reference' = F_op(previous reference) with the standalone "
             "function, reference untouched by reshaping operations.",
        ref="DESIGN.md 4 (C08)", note=TB + "; P08 clauses are judged on recorded series only, equality with the specification's state is drift"),
    "C09": dict(
        technique="TLA+ state machine of the Weaver (Weaver.tla) with well-formedness / frame clauses model-checked by TLC; TLC trace validation of real programs over the whole API incl. restore bisimulation pairs",
        text="TLC checks well-formedness and the original/caller frames on the model and judges recorded programs of up to 10 operations "
             "over the whole public API (all strategies, interpolation methods, list/array arguments): after every call the container "
             "kinds, equal lengths, finiteness, strictly increasing abscissae, byte-identity of the caller's arrays and of the original; "
             "and for restore_original the recorded state sequence of a suffix program on the restored object against the same suffix "
             "on a fresh Weaver(get_original()).",
        ref="DESIGN.md 4 (C09)", note=TB + "; preconditions of operations are decided by Weaver!OutOfScope; histories are not judged beyond an out-of-scope call"),
    "C10": dict(
        technique="TLA+ definition (Search.tla) + PlusCal transcription of the scans model-checked by TLC; TLC trace validation of replayed real calls",
        text="TLC proves the three two-pointer scans (PlusCal transcription) equal the declarative definition on every array/query "
             "list of the bounded lattice, checks the lemmas of the definition, and emits every lattice input; each is replayed through "
             "the real scan functions and the dispatcher (12 calls per input) and the recorded index vectors are judged by TLC against "
             "the definition, together with seeded random float arrays whose ulp-adjacent queries are mapped exactly to integers. "
             "The integer version of the scans is additionally checked symbolically by Apalache over unbounded integers (fixed lengths).",
        ref="DESIGN.md 4 (C10)",
        note=TB + "; floats base+k*ulp in one binade are an exact affine image of the integers k"),
    "C11": dict(
        technique="TLA+ specification of truncate/slice (Process.tla) model-checked by TLC; TLC trace validation of replayed real calls",
        text="TLC checks that the index arithmetic of the specification equals the property's wording (TruncateLaws) on every lattice "
             "series and bound pair and emits every (series, operation); each is replayed through process.truncate, "
             "Weaver.truncate_by_value (working and reference series), slice_by_value, slice_by_index, truncate_by_index; TLC judges "
             "the recorded results against the specification (equality; rejects must be ValueError).",
        ref="DESIGN.md 4 (C11)", note=TB),
    "C12": dict(
        technique="TLA+ specification of repeat (Process.tla) model-checked by TLC; TLC trace validation of replayed real calls",
        text="TLC checks the repeat laws (identity, composition a then b = a*b, strictly increasing, first copy = input) on the model "
             "for every lattice series and factor pair, emits them; replayed through process.repeat, Weaver.repeat and the recorded "
             "composition pair; TLC judges equality with the definition.",
        ref="DESIGN.md 4 (C12)", note=TB),
    "C13": dict(
        technique="TLA+ specification of constant/linear interpolation and the Weaver grid (Process.tla), cubic/spline as constrained environment steps; TLC trace validation",
        text="'constant', 'linear' and the Weaver-level grid construction are compared by TLC with the exact specification on every "
             "lattice series/grid and on random dyadic series; 'cubic'/'spline' values come from SciPy and are judged by TLC only "
             "through the property's clauses (nodes reproduced, affine data reproduced, shape); unknown methods and grids with "
             "other end points must be rejected.",
        ref="DESIGN.md 4 (C13), 6", note=TB + "; SciPy spline values are constrained, not recomputed"),
    "C14": dict(
        technique="TLA+ specification of trend/normalise/shift/scale (Process.tla) model-checked by TLC; TLC trace validation of replayed real calls",
        text="TLC checks zero-trend identity, additivity of trends, and order/relative-spacing preservation of normalisation on the "
             "model, emits every (series, operation); replayed through process.trend (the argument handed to the callable is logged), "
             "linear_trend, normalize and the Weaver operations; TLC judges equality with the specification.",
        ref="DESIGN.md 4 (C14)", note=TB + "; trend callables are polynomials of degree <= 2 with rational coefficients"),
    "C15": dict(
        technique="TLA+ environment-step specification of Gaussian noise (Env.tla) model-checked by TLC; TLC trace validation of real runs recorded at the numpy.random.normal boundary",
        text="The generator is an environment action: TLC checks on the model that the result differs from the signal exactly by the draw "
             "and that scale^2 * SNR = mean(y^2) for decibel / linear / per-sample / std inputs on every lattice signal (incl. signals with "
             "mean(y^2) # mean(y)^2), emits each behaviour, and judges the recorded real calls: exactly one draw with loc 0 and the "
             "signal's shape, the scale rule (exact when the scale is rational, else bracketed at ~0.1%), result = signal + draw, x and "
             "length unchanged through the Weaver, identical results under a fixed NumPy seed. The statistical clause (empirical SNR of a "
             "long series) is NOT decided: it is outside what the specification can evaluate (DESIGN 6).",
        ref="DESIGN.md 4 (C15), 6", note=TB + "; empirical-SNR statistics not covered (follows from the deterministic clauses + NumPy's contract for normal(0, scale))"),
    "C16": dict(
        technique="TLA+ environment-step constraint for spline smoothing (Env.tla; lemmas model-checked by TLC); TLC evaluates the smoothing-condition clauses on recorded real runs",
        text="FITPACK is an environment step constrained by the property: TLC checks the constraint's lemmas on a small lattice and "
             "evaluates on every recorded run (series of 5..200 points, s in {0} U [1e-4, 1e2], affine data) that x and the length are kept, "
             "the summed squared deviation stays within s (0.2% + projection slack), s = 0 and affine data give the identity, omitting s "
             "equals s = len(y)*var(y), the condition is forwarded unchanged, and to_function() interpolates the samples; runs with FITPACK "
             "warnings are discarded.",
        ref="DESIGN.md 4 (C16), 6", note=TB + "; spline values are constrained, not recomputed; deviations are rescaled to integers by the harness"),
    "C17": dict(
        technique="TLA+ specification of the array helpers / interval view / average (Arrays.tla) model-checked by TLC; TLC trace validation of replayed real calls",
        text="TLC checks the round trip average(oversample) = identity, every-n-th-position and extension theorems on every lattice "
             "array, n and direction and emits them; each is expanded into calls of all helpers, IntervalArray reads/writes for every "
             "valid [i,j], the 2-D views and process.average; TLC judges the recorded results (NaN padding included) against the "
             "specification.",
        ref="DESIGN.md 4 (C17)", note=TB),
    "C18": dict(
        technique="TLA+ registry invariants (DatasetRegistry.tla) and sequential-pair instance of DatasetCache evaluated by TLC on a registry extracted from the working tree; TLC trace validation of real load_dataset calls",
        text="The registry (95 documented names from the shipped description tables, and what load_dataset does for each with the remote "
             "loader stubbed) is extracted from the working tree at check time; TLC evaluates the invariants (every name resolves, URL / "
             "checksum / remote file / cache slot injective, '-'/'_' variants agree) and explores sequential healthy loads of all ordered "
             "pairs of the 76 remote datasets (NoCrossTalk, distinct slots); every name is then replayed through the real load_dataset "
             "(both unpack values, fake network, TRAFFIC_WEAVER_DATA honoured) and the recorded events are judged by TLC; where the cache "
             "lives is a small state machine of its own (DataHome.tla: variable set / unset, directory argument, creation, clearing) whose "
             "whole state graph is replayed in a scratch HOME and validated step by step; a model-level "
             "counterexample becomes a VIOLATION only after it has been reproduced on the real loader.",
        ref="DESIGN.md 4 (C18), 10.7", note=TB + "; payloads are synthetic, _sha256 is replaced by a table for registry-level loads (and checked against hashlib separately)"),
    "C19": dict(
        technique="TLA+ specification of the remote loader as processes x network x filesystem x crashes (DatasetCache.tla) model-checked by TLC incl. liveness (safety clauses also as an inductive invariant with Apalache); TLC trace validation of real forked, step-gated loaders with real SIGKILLs",
        category="model_checking",
        text="TLC explores every interleaving, fault sequence and crash point of 1 and 2 (thorough: 3) loader processes (13 step boundaries, "
             "Crash at each, probe loads afterwards) checking CacheSound, NeverUnverified, OfflineWhenCached, ServedWhenCached, RetryBound, NoCrossTalk and, "
             "under fairness, LaterLoadSucceeds; the labelled state graph is dumped and a transition cover plus seeded walks, simulated "
             "many-process behaviours and random schedules are replayed into real forked loader processes gated at the step boundaries, "
             "killed with SIGKILL at the chosen boundary; after every step the cache slots, temp files, network calls and results are "
             "recorded and the traces are validated by TLC (C19.* clauses = violation, step-level deviation = drift). The safety clauses "
             "are additionally discharged as an inductive invariant of the same module by Apalache (base, step, negative control) for 4+1 "
             "(thorough: 8+2) processes at any depth - a statement about the specification only.",
        ref="DESIGN.md 4 (C19), 10.7", note=TB + "; step boundaries exist where module-level names of _base are rebound; the kernel provides fork, SIGKILL and rename atomicity"),
    "C20": dict(
        technique="TLA+ argument checks (Weaver!Rejects, function-level judges) with the frame condition as a TLC action property; TLC trace validation of refused real calls with bitwise before/after snapshots",
        text="The specification decides which requests are invalid; TLC checks on the model that a refused operation leaves the state "
             "unchanged after every explored history, and judges recorded real calls: each invalid-argument class (15 Weaver-level kinds "
             "issued inside random valid histories, plus function-level and constructor / name refusals) must raise exactly ValueError and "
             "leave working, reference and original series bitwise unchanged.",
        ref="DESIGN.md 4 (C20)", note=TB),
}

NOT_YET = "check not built yet (work in progress); will be claimed when its TLA+ check exists"


def main():
    checks = []
    for pid in PROPS:
        if pid not in CLAIMS:
            continue
        c = CLAIMS[pid]
        checks.append({
            "property_id": pid,
            "quick_cmd": "./check %s quick" % pid,
            "thorough_cmd": "./check %s thorough" % pid,
            "evidence_file": "/verif/evidence/%s.json" % pid,
            "replay_cmd_template": "./check %s --replay {path}" % pid,
            "engine": "tlc",
            "level_claimed": {"category": c.get("category", "model_checking"), "text": c["text"], "design_ref": c["ref"]},
            "level_note": c["note"],
            "technique": c["technique"],
        })
    m = {
        "version": 1,
        "setup_cmd": "true",
        "hooks": {"guard": "TRAFFIC_WEAVER_VERIF",
                  "enable": "no source hooks exist: the harness observes the public API and rebinds module-level names from outside; "
                            "checks import the working tree via PYTHONPATH=/repo/src in fresh processes",
                  "baseline_off_cmd": "cd /repo && /venv/bin/python -m pytest -ra -q -p no:cacheprovider --timeout=900 --continue-on-collection-errors",
                  "source_commits": [], "add_only": True},
        "engines": [{"name": "tlc", "path": "/verif/check", "serves_properties": [c["property_id"] for c in checks],
                     "kind_free_text": "TLA+ specifications under /verif/spec checked with TLC (bounded instances spec/mc, trace "
                                       "specifications spec/trace); Python harness under /verif/harness replays TLC-emitted behaviours "
                                       "into /repo and feeds recorded traces back to TLC"}],
        "checks": checks,
        "notes": "Exit 0 = held, 1 = VIOLATION lines printed, 2 = machinery failure (nothing reported). VERIF_SEED seeds random cases; "
                 "VERIF_REPO overrides the tree under test (default /repo). Known findings: /verif/known_findings.json.",
        "not_applicable": [{"property_id": p, "reason": NOT_YET} for p in PROPS if p not in CLAIMS],
    }
    json.dump(m, open(os.path.join(VERIF, "MANIFEST.json"), "w"), indent=1)
    print("claimed:", [c["property_id"] for c in checks])


main()
