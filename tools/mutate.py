#!/venv/bin/python
"""Systematic small changes of /repo's source (operator, constant, condition and statement mutations), used to look for
gaps of the checks: a mutant that keeps the pinned suite green *and* all mapped checks quiet is either equivalent, outside
the listed properties, or a gap to close.  Nothing here is evidence; results go to a report file for triage.

  tools/mutate.py list                         -> number of mutation sites per file
  tools/mutate.py run <out.jsonl> [N] [seed] [file-substring]   -> samples N sites (stratified per file), for each:
        scratch copy of /repo under /tmp, apply, pinned suite, then the quick checks mapped to the file; one JSON line each
"""
import ast
import json
import os
import random
import shutil
import subprocess
import sys
import tempfile
import xml.etree.ElementTree as ET

REPO = "/repo"
SRC = os.path.join(REPO, "src", "traffic_weaver")
FILES = ["sorted_array_utils.py", "interval.py", "process.py", "funfit.py", "rfa.py", "match.py", "weaver.py",
         "datasets/_base.py", "datasets/_ams_ix.py", "datasets/_ix_br.py", "datasets/_mix_it.py", "datasets/_sandvine.py",
         "datasets/_datasets.py"]
CHECKS = {
    "sorted_array_utils.py": ["C10", "C17", "C01", "C04", "C11", "C12", "C20"],
    "interval.py": ["C17", "C04", "C05", "C06"],
    "process.py": ["C11", "C12", "C13", "C14", "C15", "C16", "C17", "C08", "C20"],
    "funfit.py": ["C06", "C05"],
    "rfa.py": ["C04", "C05", "C06", "C07", "C02", "C20"],
    "match.py": ["C01", "C02", "C03", "C20"],
    "weaver.py": ["C08", "C09", "C20", "C13", "C02", "C16", "C15"],
    "datasets/_base.py": ["C18", "C19", "C20"],
    "datasets/_ams_ix.py": ["C18", "C19"], "datasets/_ix_br.py": ["C18", "C19"], "datasets/_mix_it.py": ["C18", "C19"],
    "datasets/_sandvine.py": ["C18"], "datasets/_datasets.py": ["C18"],
}
CMP = {ast.Lt: ("<", "<="), ast.LtE: ("<=", "<"), ast.Gt: (">", ">="), ast.GtE: (">=", ">"), ast.Eq: ("==", "!="),
       ast.NotEq: ("!=", "==")}
BIN = {ast.Add: ("+", "-"), ast.Sub: ("-", "+"), ast.Mult: ("*", "/"), ast.Div: ("/", "*"), ast.FloorDiv: ("//", "/"),
       ast.Pow: ("**", "*"), ast.Mod: ("%", "//")}


class Src:
    def __init__(self, text):
        self.text = text
        self.lines = text.split("\n")
        self.off = [0]
        for ln in self.lines:
            self.off.append(self.off[-1] + len(ln.encode()) + 1)
        self.bytes = text.encode()

    def pos(self, line, col):
        return self.off[line - 1] + col

    def span(self, node):
        return self.pos(node.lineno, node.col_offset), self.pos(node.end_lineno, node.end_col_offset)


def sites(path):
    text = open(path).read()
    s = Src(text)
    tree = ast.parse(text)
    out = []

    def rep(a, b, new, kind, line):
        out.append({"a": a, "b": b, "new": new, "kind": kind, "line": line, "old": s.bytes[a:b].decode()})

    def between(lo_node, hi_node, tok, new, kind):
        a = s.pos(lo_node.end_lineno, lo_node.end_col_offset)
        b = s.pos(hi_node.lineno, hi_node.col_offset)
        seg = s.bytes[a:b].decode()
        i = seg.find(tok)
        if i >= 0 and seg.count(tok) == 1:
            rep(a + i, a + i + len(tok), new, kind, lo_node.end_lineno)

    docstrings = set()
    for n in ast.walk(tree):
        if isinstance(n, (ast.FunctionDef, ast.ClassDef, ast.Module)) and n.body and isinstance(n.body[0], ast.Expr) \
                and isinstance(getattr(n.body[0], "value", None), ast.Constant) and isinstance(n.body[0].value.value, str):
            docstrings.add(id(n.body[0]))
    for n in ast.walk(tree):
        if isinstance(n, ast.Compare) and len(n.ops) == 1 and type(n.ops[0]) in CMP:
            t, new = CMP[type(n.ops[0])]
            between(n.left, n.comparators[0], t, new, "cmp")
        elif isinstance(n, ast.BinOp) and type(n.op) in BIN:
            t, new = BIN[type(n.op)]
            if not (isinstance(n.op, ast.Mod) and isinstance(n.left, ast.Constant) and isinstance(n.left.value, str)):
                between(n.left, n.right, t, new, "bin")
        elif isinstance(n, ast.BoolOp) and len(n.values) == 2:
            t, new = ("and", "or") if isinstance(n.op, ast.And) else ("or", "and")
            between(n.values[0], n.values[1], t, new, "bool")
        elif isinstance(n, ast.Constant) and type(n.value) in (int, float) and not isinstance(n.value, bool):
            a, b = s.span(n)
            v = n.value
            rep(a, b, repr(v + 1) if v != 1 else "0", "const", n.lineno)
            if isinstance(v, int) and v not in (0, 1):
                rep(a, b, repr(v - 1), "const", n.lineno)
        elif isinstance(n, ast.Constant) and isinstance(n.value, bool):
            a, b = s.span(n)
            rep(a, b, repr(not n.value), "bool_const", n.lineno)
        elif isinstance(n, ast.UnaryOp) and isinstance(n.op, (ast.Not, ast.USub)):
            a, _ = s.span(n)
            b, _ = s.span(n.operand)
            rep(a, b, "", "unary", n.lineno)
        elif isinstance(n, (ast.If, ast.While, ast.IfExp)):
            a, b = s.span(n.test)
            rep(a, b, "not (" + s.bytes[a:b].decode() + ")", "negate", n.test.lineno)
        elif isinstance(n, (ast.Assign, ast.AugAssign, ast.Expr, ast.Raise)) and id(n) not in docstrings:
            if isinstance(n, ast.Expr) and not isinstance(n.value, ast.Call):
                continue
            a, b = s.span(n)
            if n.lineno == n.end_lineno or True:
                rep(a, b, "pass", "delete", n.lineno)
        elif isinstance(n, ast.Subscript) and isinstance(n.slice, ast.Slice):
            sl = n.slice
            for part in (sl.lower, sl.upper):
                if part is not None and not isinstance(part, ast.Constant):
                    a, b = s.span(part)
                    rep(a, b, "(" + s.bytes[a:b].decode() + ") + 1", "slice", part.lineno)
        elif isinstance(n, ast.Return) and n.value is not None and isinstance(n.value, ast.Name):
            pass
    # module-level statements deleted would only break imports: keep statement deletion inside functions only
    infn = set()
    for f in ast.walk(tree):
        if isinstance(f, (ast.FunctionDef, ast.Lambda)):
            for n in ast.walk(f):
                if hasattr(n, "lineno"):
                    infn.add((n.lineno, n.col_offset))
    keep = []
    seen = set()
    for m in out:
        key = (m["a"], m["b"], m["new"])
        if key in seen:
            continue
        seen.add(key)
        keep.append(m)
    return s, keep


def apply(s, m):
    return (s.bytes[:m["a"]] + m["new"].encode() + s.bytes[m["b"]:]).decode()


def suite_ok(repo):
    j = os.path.join(repo, "j.xml")
    try:
        subprocess.run(["/venv/bin/python", "-m", "pytest", "-q", "-p", "no:cacheprovider", "--timeout=120", "-x" if False else "-q",
                        "--continue-on-collection-errors", "--junitxml=" + j], cwd=repo, stdout=subprocess.DEVNULL,
                       stderr=subprocess.DEVNULL, timeout=900)
        base = json.load(open("/root/.vp/BASELINE.json"))
        t = ET.parse(j).getroot()
        passed = set()
        for tc in t.iter("testcase"):
            if not any(ch.tag in ("failure", "error", "skipped") for ch in tc):
                passed.add(tc.get("classname") + "::" + tc.get("name"))
        return [x for x in base["stable_pass"] if x not in passed]
    except Exception as ex:  # noqa
        return ["suite-crashed: %r" % ex]


def run_checks(repo, ids):
    res = {}
    verif = os.path.dirname(os.path.dirname(os.path.abspath(__file__)))
    for cid in ids:
        env = dict(os.environ, VERIF_REPO=repo)
        try:
            p = subprocess.run([os.path.join(verif, "check"), cid, "quick"], cwd=verif, env=env, stdout=subprocess.PIPE,
                               stderr=subprocess.STDOUT, timeout=1500)
            txt = p.stdout.decode(errors="replace")
            cl = sorted({c for ln in txt.splitlines() if ln.startswith("VIOLATION") for c in ln.split("clauses=")[-1].split(",")})[:8]
            res[cid] = {"rc": p.returncode, "clauses": cl, "tail": txt.strip().splitlines()[-1][:200] if txt.strip() else ""}
        except subprocess.TimeoutExpired:
            res[cid] = {"rc": 124, "clauses": [], "tail": "timeout"}
        if res[cid]["rc"] == 1:
            break                       # caught: the remaining checks are not needed
    return res


def main():
    if sys.argv[1] == "list":
        tot = 0
        for f in FILES:
            _, ms = sites(os.path.join(SRC, f))
            kinds = {}
            for m in ms:
                kinds[m["kind"]] = kinds.get(m["kind"], 0) + 1
            print("%-26s %4d %s" % (f, len(ms), kinds))
            tot += len(ms)
        print("total", tot)
        return
    out = sys.argv[2]
    n = int(sys.argv[3]) if len(sys.argv) > 3 else 60
    seed = int(sys.argv[4]) if len(sys.argv) > 4 else 1
    only = sys.argv[5] if len(sys.argv) > 5 else ""
    rng = random.Random(seed)
    pool = []
    for f in FILES:
        if only and only not in f:
            continue
        s, ms = sites(os.path.join(SRC, f))
        for m in ms:
            pool.append((f, s, m))
    rng.shuffle(pool)
    done = set()
    if os.path.exists(out):
        for ln in open(out):
            r = json.loads(ln)
            done.add((r["file"], r["a"], r["b"], r["new"]))
    count = 0
    for f, s, m in pool:
        if count >= n:
            break
        if (f, m["a"], m["b"], m["new"]) in done:
            continue
        new = apply(s, m)
        try:
            compile(new, f, "exec")
        except SyntaxError:
            continue
        count += 1
        d = tempfile.mkdtemp(prefix="mut.", dir="/tmp")
        repo = os.path.join(d, "repo")
        shutil.copytree(REPO, repo, ignore=shutil.ignore_patterns(".git", "__pycache__"))
        open(os.path.join(repo, "src", "traffic_weaver", f), "w").write(new)
        rec = {"file": f, "line": m["line"], "kind": m["kind"], "old": m["old"][:120], "new": m["new"][:120], "a": m["a"], "b": m["b"],
               "src_line": s.lines[m["line"] - 1].strip()[:160]}
        missing = suite_ok(repo)
        rec["suite_missing"] = missing[:5]
        if missing:
            rec["status"] = "killed-by-suite"
        else:
            res = run_checks(repo, CHECKS[f])
            rec["checks"] = res
            if any(v["rc"] == 1 for v in res.values()):
                rec["status"] = "caught"
            elif any(v["rc"] not in (0, 1) for v in res.values()):
                rec["status"] = "machinery"
            else:
                rec["status"] = "survived"
        shutil.rmtree(d, ignore_errors=True)
        with open(out, "a") as fh:
            fh.write(json.dumps(rec) + "\n")
        print(count, rec["status"], f, m["line"], m["kind"], repr(m["old"][:40]), "->", repr(m["new"][:40]), flush=True)


main()
