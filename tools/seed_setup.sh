#!/bin/sh
# tools/seed_setup.sh <seed id, e.g. C07g>   prepares what an independent sub-agent gets: the property text (/tmp/prop_<pid>.txt,
# derived from properties.jsonl) and a scratch git worktree of /repo (/tmp/wt_<id>); the task template is tools/seed_prompt.txt
# (@ID@, @PID@, @HINT@).  Nothing from /verif is handed over.  Remove the worktree with: git -C /repo worktree remove --force /tmp/wt_<id>
id=$1; pid=$(echo $id | cut -c1-3)
/venv/bin/python - "$pid" <<'PY'
import json, sys
pid = sys.argv[1]
for l in open('/verif/properties.jsonl'):
    p = json.loads(l)
    if p['id'] == pid:
        open('/tmp/prop_%s.txt' % pid, 'w').write("%s - %s\n\nSTATEMENT: %s\n\nQUANTIFIER: %s\n\nFILES: %s\n" % (
            pid, p['title'], p['statement'], p['quantifier']['text'], ", ".join(p['anchors']['files'])))
PY
cp "$(dirname "$0")/seed_prompt.txt" /tmp/seed_prompt.txt
git -C /repo worktree add -q --detach /tmp/wt_$id HEAD && mkdir -p /tmp/seed_$id && echo "ready: /tmp/wt_$id /tmp/prop_$pid.txt /tmp/seed_$id"
