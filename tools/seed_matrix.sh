#!/bin/sh
# tools/seed_matrix.sh [own|rel]   (default rel)
# for every stored seed (applied to a scratch copy of /repo/src): "own" runs the quick check of the property the seed breaks
# (must exit 1); "rel" runs the quick checks of the properties anchored in the files it touches (none may exit 2).
cd "$(dirname "$0")/.."
mode=${1:-rel}
rel() {
  case "$1" in
    C01|C02|C03) echo "C01 C02 C03 C08 C09 C20";;
    C04|C05|C06|C07) echo "C02 C04 C05 C06 C07 C08 C09 C17";;
    C08|C09|C20) echo "C08 C09 C11 C14 C20 C13";;
    C10) echo "C01 C10 C11 C13";;
    C11) echo "C08 C09 C11 C20";;
    C12) echo "C08 C09 C12";;
    C13) echo "C09 C13 C20";;
    C14) echo "C08 C09 C14";;
    C15|C16) echo "C09 C15 C16 C03";;
    C17) echo "C02 C04 C05 C17";;
    C18|C19) echo "C18 C19 C02";;
  esac
}
bad=0
for d in seeded/${SEEDS:-*}/; do
  s=$(basename $d)
  p=$(echo $s | cut -c1-3)
  tmp=$(mktemp -d /tmp/seedmx.XXXXXX)
  cp -r /repo/src $tmp/src
  (cd $tmp && patch -p1 -s < "$OLDPWD/$d/patch.diff") || { echo "$s PATCH-FAILED"; rm -rf $tmp; bad=1; continue; }
  line="$s:"
  if [ "$mode" = own ]; then ids=$p; else ids=$(rel $p); fi
  for id in $ids; do
    VERIF_REPO=$tmp ./check $id quick >$tmp/out 2>&1; rc=$?
    line="$line $id=$rc"
    [ $rc = 2 ] && { bad=1; tail -3 $tmp/out | cut -c1-300; }
    [ "$id" = "$p" ] && [ $rc != 1 ] && { bad=1; line="$line(MISSED)"; }
  done
  echo "$line"
  rm -rf $tmp
done
exit $bad
