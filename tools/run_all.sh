#!/bin/sh
# runs every claimed check's command of the given tier (default quick) sequentially; prints one summary line each
tier=${1:-quick}
cd "$(dirname "$0")/.."
for id in $(/venv/bin/python -c "import json;print(' '.join(c['property_id'] for c in json.load(open('MANIFEST.json'))['checks']))"); do
  s=$(date +%s)
  out=$(./check $id $tier 2>&1); rc=$?
  e=$(date +%s)
  echo "$id rc=$rc $((e-s))s $(echo "$out" | grep -c '^VIOLATION') violations $(echo "$out" | grep -c '^KNOWN-FINDING') known | $(echo "$out" | tail -1 | cut -c1-160)"
done
