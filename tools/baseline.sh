#!/bin/sh
# Runs the repository's pinned suite (guard off) and compares with BASELINE.json's stable_pass list.
out=$(mktemp /tmp/junit.XXXXXX.xml)
cd /repo && env -u TRAFFIC_WEAVER_VERIF /venv/bin/python -m pytest -ra -q -p no:cacheprovider --timeout=900 --continue-on-collection-errors --junitxml=$out > /tmp/baseline.log 2>&1
/venv/bin/python - "$out" <<'PY'
import json,sys,xml.etree.ElementTree as ET
base=json.load(open('/root/.vp/BASELINE.json'))
t=ET.parse(sys.argv[1]).getroot()
passed=set()
for tc in t.iter('testcase'):
    ok=not any(ch.tag in('failure','error','skipped') for ch in tc)
    if ok: passed.add(tc.get('classname')+'::'+tc.get('name'))
missing=[s for s in base['stable_pass'] if s not in passed]
print('passed',len(passed),'baseline',len(base['stable_pass']),'missing',len(missing))
for m in missing[:20]: print('  MISSING',m)
sys.exit(1 if missing else 0)
PY
rc=$?; rm -f $out; exit $rc
