#!/bin/sh
# tools/try_seed.sh <patch.diff> <check ids...> : applies the patch to a scratch copy of /repo/src and runs the quick checks on it
patch=$1; shift
d=$(mktemp -d /tmp/seedtry.XXXXXX)
cp -r /repo/src $d/src
(cd $d && patch -p1 -s < $patch) || { echo "patch failed"; rm -rf $d; exit 2; }
cd /verif
for id in "$@"; do
  out=$(VERIF_REPO=$d ./check $id ${TIER:-quick} 2>&1); rc=$?
  echo "$id rc=$rc | $(echo "$out" | grep -E '^VIOLATION' | sed 's/replay=[^ ]*//' | sort | uniq -c | sort -rn | head -3 | tr '\n' ';') $(echo "$out" | tail -1 | cut -c1-140)"
done
rm -rf $d
