"""Shared plumbing of the verification framework: TLC runner, trace files, float projection,
evidence, verdict bookkeeping.  The Python side drives, projects and logs; TLC judges."""
import json
import os
import re
import shutil
import subprocess
import sys
import time
from fractions import Fraction

VERIF = os.path.dirname(os.path.dirname(os.path.abspath(__file__)))
REPO = os.environ.get("VERIF_REPO", "/repo")
SPEC = os.path.join(VERIF, "spec")
JAR = "/opt/veriftools/tla/tla2tools.jar:/opt/veriftools/tla/CommunityModules-deps.jar"
TLA_LIB = os.pathsep.join([SPEC, os.path.join(SPEC, "props"), os.path.join(SPEC, "mc"), os.path.join(SPEC, "trace")])
NCPU = min(16, os.cpu_count() or 1)


class MachineryError(Exception):
    """Anything that is the framework's fault: exit code 2, nothing reported."""


def use_repo():
    """Make `import traffic_weaver` resolve to the working tree under test (fresh import)."""
    src = os.path.join(REPO, "src")
    if src not in sys.path:
        sys.path.insert(0, src)
    sys.dont_write_bytecode = True


# --------------------------------------------------------------------------------------------
# projection of numbers
# --------------------------------------------------------------------------------------------
def rat(v):
    """Exact rational -> [n, d] (inputs of the model are always exact rationals)."""
    f = Fraction(v)
    return [f.numerator, f.denominator]


def rats(vs):
    return [rat(v) for v in vs]


def fx(v):
    """Recorded float -> signed limbs [s, hi, lo], |v| = hi*1e-4 + lo*1e-9 (round to nearest 1e-9).
    nan -> [2,0,0], +-inf -> [+-3,0,0], |v| >= 2e5 -> [4,0,0]; anything not a real number -> [5,0,0]."""
    try:
        v = float(v)
    except (TypeError, ValueError):
        return [5, 0, 0]
    if v != v:
        return [2, 0, 0]
    if v in (float("inf"), float("-inf")):
        return [3 if v > 0 else -3, 0, 0]
    a = abs(v)
    if a >= 2e5:
        return [4, 0, 0]
    q = int(round(a * 1e9))
    if q == 0:
        return [0, 0, 0]
    hi, lo = divmod(q, 100000)
    return [1 if v > 0 else -1, hi, lo]


def fxs(vs):
    return [fx(v) for v in vs]


def unfx(f):
    return f[0] * (f[1] * 1e-4 + f[2] * 1e-9)


# --------------------------------------------------------------------------------------------
# compact storage of recorded series (a thorough run holds millions of recorded samples until TLC has judged them)
# --------------------------------------------------------------------------------------------
from array import array  # noqa: E402


class Limbs:
    """Read-only sequence of equally long integer rows - limb triples [s, hi, lo] of recorded floats (width 3) or exact
    rationals [n, d] (width 2) - packed into one array: 8 bytes per integer instead of ~70 as nested lists.
    Behaves like a list of lists for reading, compares equal to one, serialises to JSON as one."""
    __slots__ = ("a", "w")

    def __init__(self, rows=(), _a=None, _w=3):
        if _a is not None:
            self.a, self.w = _a, _w
        else:
            self.w = len(rows[0]) if len(rows) else _w
            self.a = array("q", [v for t in rows for v in t])

    def __len__(self):
        return len(self.a) // self.w

    def __getitem__(self, i):
        if isinstance(i, slice):
            return [self[j] for j in range(*i.indices(len(self)))]
        if i < 0:
            i += len(self)
        if not 0 <= i < len(self):
            raise IndexError(i)
        return list(self.a[self.w * i:self.w * (i + 1)])

    def __iter__(self):
        a, w = self.a, self.w
        for i in range(0, len(a), w):
            yield list(a[i:i + w])

    def tolist(self):
        return list(self)

    def __eq__(self, other):
        if isinstance(other, Limbs):
            return self.w == other.w and self.a == other.a
        return self.tolist() == other

    def __ne__(self, other):
        return not self.__eq__(other)

    __hash__ = None

    def __bool__(self):
        return len(self.a) > 0

    def __reduce__(self):
        return (_limbs_from_array, (self.a, self.w))

    def __repr__(self):
        return "Limbs(%r)" % self.tolist()


def _limbs_from_array(a, w=3):
    return Limbs(_a=a, _w=w)


_I64 = 1 << 62


def _is_row(t, w):
    if type(t) is not list or len(t) != w:
        return False
    for v in t:
        if type(v) is not int or not -_I64 < v < _I64:
            return False
    return True


def compact(o):
    """Replace every list of >= 4 integer rows of width 2 or 3 inside a recorded event by a Limbs object (in place)."""
    if type(o) is dict:
        for k, v in o.items():
            if type(v) in (list, dict):
                o[k] = compact(v)
        return o
    if type(o) is list:
        if len(o) >= 4 and type(o[0]) is list and len(o[0]) in (2, 3):
            w = len(o[0])
            if all(_is_row(t, w) for t in o):
                return Limbs(o)
        for i, v in enumerate(o):
            if type(v) in (list, dict):
                o[i] = compact(v)
    return o


def jdefault(o):
    return o.tolist() if isinstance(o, Limbs) else str(o)


_json_default0 = json.JSONEncoder.default


def _json_default(self, o):          # any json.dumps(...) of an event works, wherever it is called
    if isinstance(o, Limbs):
        return o.tolist()
    return _json_default0(self, o)


json.JSONEncoder.default = _json_default


# --------------------------------------------------------------------------------------------
# scratch
# --------------------------------------------------------------------------------------------
class Scratch:
    def __init__(self, tag):
        root = os.path.join(VERIF, ".scratch")
        os.makedirs(root, exist_ok=True)
        # scratch directories of runs that were killed: remove what is older than six hours
        now = time.time()
        for name in os.listdir(root):
            p = os.path.join(root, name)
            try:
                if os.path.isdir(p) and now - os.path.getmtime(p) > 6 * 3600 and name != "evidence_other_tree":
                    shutil.rmtree(p, ignore_errors=True)
            except OSError:
                pass
        self.dir = os.path.join(root, "%s-%d-%d" % (tag, os.getpid(), int(time.time() * 1000) % 10 ** 9))
        os.makedirs(self.dir, exist_ok=True)
        self._pid = os.getpid()
        import atexit
        atexit.register(self._atexit)          # also on the machinery-error path

    def _atexit(self):
        if os.getpid() == self._pid:            # not in forked workers
            self.cleanup()

    def path(self, *a):
        return os.path.join(self.dir, *a)

    def cleanup(self):
        shutil.rmtree(self.dir, ignore_errors=True)


# --------------------------------------------------------------------------------------------
# TLC
# --------------------------------------------------------------------------------------------
class TLCResult:
    def __init__(self):
        self.stdout = ""
        self.rc = None
        self.generated = 0
        self.distinct = 0
        self.depth = 0
        self.json_lines = []
        self.tuples = []
        self.error = None
        self.violated = []  # names of invariants / properties TLC reported violated
        self.coverage = {}
        self.wall = 0.0
        self.init_states = 0


_RE_VERDICT = re.compile(r'<<"V", (\d+), \{([^{}]*)\}>>')
_RE_JSONSTR = re.compile(r'"\{(?:[^"\\\n]|\\.)*\}"')
_RE_INIT = re.compile(r"Finished computing initial states: (\d+) distinct state")
_RE_STATES = re.compile(r"(\d+) states generated, (\d+) distinct states found")
_RE_INV = re.compile(r"Invariant (\S+) is violated")
_RE_PROP = re.compile(r"(?:Action property|Temporal property|property) (\S+) (?:is|was) violated", re.I)
_RE_DEPTH = re.compile(r"The depth of the complete state graph search is (\d+)")
_RE_COV = re.compile(r"^<(\w+) line (\d+), col (\d+) to line (\d+), col (\d+) of module (\w+)>: (\d+):(\d+)")


def run_tlc(workdir, module, cfg, workers=NCPU, timeout=3600, env=None, simulate=None, depth=None,
            coverage=False, seed=None, deadlock=False, extra=None, heap="8g"):
    """Run TLC on <workdir>/<module>.tla with <cfg>; modules under /verif/spec are on the library path."""
    t0 = time.time()
    cmd = ["java", "-XX:+UseSerialGC", "-Xss64m", "-Xmx" + heap, "-DTLA-Library=" + TLA_LIB, "-cp", JAR, "tlc2.TLC",
           "-metadir", os.path.join(workdir, "meta-%s-%d" % (module, int(t0 * 1000) % 10 ** 9)), "-noGenerateSpecTE",
           "-workers", str(workers), "-config", cfg]
    if not deadlock:
        cmd.append("-deadlock")  # disables deadlock checking
    if simulate:
        cmd += ["-simulate", simulate]
    if depth:
        cmd += ["-depth", str(depth)]
    if coverage:
        cmd += ["-coverage", "1"]
    if seed is not None:
        cmd += ["-seed", str(seed)]
    if extra:
        cmd += list(extra)
    cmd.append(module)
    e = dict(os.environ)
    e.pop("JAVA_TOOL_OPTIONS", None)
    if env:
        e.update(env)
    try:
        p = subprocess.run(cmd, cwd=workdir, env=e, stdout=subprocess.PIPE, stderr=subprocess.STDOUT,
                           timeout=timeout, text=True, errors="replace")
        out, rc = p.stdout, p.returncode
    except subprocess.TimeoutExpired as ex:
        out = ex.stdout if isinstance(ex.stdout, str) else (ex.stdout or b"").decode("utf8", "replace")
        rc = -9
    r = TLCResult()
    r.stdout, r.rc, r.wall = out, rc, time.time() - t0
    # PrintT(ToJson(..)) prints a quoted TLA+ string; workers print concurrently, so scan by pattern, not by line
    for m in _RE_JSONSTR.finditer(out):
        try:
            r.json_lines.append(json.loads(json.loads(m.group(0))))
        except ValueError:
            pass
    for line in out.splitlines():
        s = line.strip()
        if s.startswith('<<"') and s.endswith(">>"):
            r.tuples.append(s)
            continue
        m = _RE_STATES.search(s)
        if m:
            r.generated, r.distinct = int(m.group(1)), int(m.group(2))
        m = _RE_INV.search(s)
        if m:
            r.violated.append(m.group(1))
        m = _RE_PROP.search(s)
        if m:
            r.violated.append(m.group(1))
        m = _RE_DEPTH.search(s)
        if m:
            r.depth = int(m.group(1))
        m = _RE_INIT.search(s)
        if m:
            r.init_states = int(m.group(1))
        m = _RE_COV.match(s)
        if m:
            r.coverage[m.group(1)] = r.coverage.get(m.group(1), 0) + int(m.group(8))
    if rc == -9:
        r.error = "timeout"
    elif "Error:" in out and not r.violated:
        i = out.index("Error:")
        r.error = out[i:i + 1500]
    shutil.rmtree(cmd[cmd.index("-metadir") + 1], ignore_errors=True)
    return r


def tlc_ok(r, what):
    """Model-level run must finish cleanly; anything else is a machinery error (DESIGN 2.3)."""
    if r.error or r.violated or r.rc not in (0,):
        raise MachineryError("%s: TLC rc=%s violated=%s error=%s\n%s" % (what, r.rc, r.violated, r.error, r.stdout[-3000:]))
    return r


def parse_tla_tuple(s):
    """Parse a printed TLA+ tuple of strings / ints / nested tuples / sets, e.g. <<"V", 12, {"a","b"}>> ."""
    pos = [0]

    def ws():
        while pos[0] < len(s) and s[pos[0]] in " \n\t":
            pos[0] += 1

    def val():
        ws()
        if s.startswith("<<", pos[0]):
            pos[0] += 2
            items = []
            ws()
            if s.startswith(">>", pos[0]):
                pos[0] += 2
                return items
            while True:
                items.append(val())
                ws()
                if s.startswith(">>", pos[0]):
                    pos[0] += 2
                    return items
                assert s[pos[0]] == ",", s
                pos[0] += 1
        if s[pos[0]] == "{":
            pos[0] += 1
            items = []
            ws()
            if s[pos[0]] == "}":
                pos[0] += 1
                return items
            while True:
                items.append(val())
                ws()
                if s[pos[0]] == "}":
                    pos[0] += 1
                    return items
                assert s[pos[0]] == ",", s
                pos[0] += 1
        if s[pos[0]] == '"':
            j = s.index('"', pos[0] + 1)
            v = s[pos[0] + 1:j]
            pos[0] = j + 1
            return v
        m = re.compile(r"-?\d+|TRUE|FALSE").match(s, pos[0])
        assert m, s[pos[0]:pos[0] + 40]
        pos[0] = m.end()
        t = m.group(0)
        return True if t == "TRUE" else False if t == "FALSE" else int(t)

    return val()


# --------------------------------------------------------------------------------------------
# trace validation (function-level events; TLC is the judge)
# --------------------------------------------------------------------------------------------
def _validate_part(scratch, part, events, trace_module, cfg, workers, timeout, tag, _depth=0):
    path = scratch.path("%s-trace-%d.json" % (tag, part))
    with open(path, "w") as f:
        json.dump(events, f, separators=(",", ":"))
    n = len(events)
    chunk = max(1, (n + 2 * workers - 1) // (2 * workers))
    wd = scratch.path("%s-part%d" % (tag, part))
    os.makedirs(wd, exist_ok=True)
    cfgp = os.path.join(wd, "trace.cfg")
    with open(cfgp, "w") as f:
        f.write(cfg or "INIT TraceInit\nNEXT TraceNext\nINVARIANT Judge\nCHECK_DEADLOCK FALSE\n")
    # the trace module is instantiated from the library path; TLC needs the root module in workdir
    shutil.copy(os.path.join(SPEC, "trace", trace_module + ".tla"), os.path.join(wd, trace_module + ".tla"))
    r = run_tlc(wd, trace_module, cfgp, workers=workers, timeout=timeout,
                env={"TRACE_FILE": path, "TRACE_CHUNK": str(chunk)}, heap=PART_HEAP)
    try:
        os.remove(path)                      # the part has been judged (or is re-written by the retry below)
    except OSError:
        pass
    if r.error and ("Overflow when computing" in r.stdout or "StackOverflowError" in r.stdout
                    or "outside the fixed-point range" in r.stdout) and _depth < 25:
        # 32-bit arithmetic of the judge cannot hold this event: set it aside (verdict "skipped.range", counted in
        # the evidence, never a violation) and judge the others again
        ls = re.findall(r"^l = (\d+)", r.stdout[r.stdout.index("Error:"):], re.M)
        if ls:
            bad = int(ls[-1])
            rest = events[:bad - 1] + events[bad:]
            v, r2 = _validate_part(scratch, part, rest, trace_module, cfg, workers, timeout, tag, _depth + 1) if rest else ({}, r)
            v[events[bad - 1]["id"]] = ["skipped.range"]
            return v, r2
    if r.error or r.violated or r.rc != 0:
        with open(os.path.join(VERIF, ".scratch", "last_tlc_error.log"), "w") as f:
            f.write(r.stdout)
        raise MachineryError("trace validation (%s): rc=%s violated=%s %s\n%s" % (trace_module, r.rc, r.violated, r.error, r.stdout[-3000:]))
    verdicts = {}
    # workers print concurrently and lines may interleave: scan the whole output by pattern, not line by line
    for j in r.json_lines:
        if "V" in j:
            verdicts[int(j["V"])] = sorted(j["c"])
    if len(verdicts) != n or r.distinct != n + 1:
        raise MachineryError("trace validation (%s): %d events, %d verdicts, %d states" % (trace_module, n, len(verdicts), r.distinct))
    return verdicts, r


PART_BYTES = 6 << 20          # JSON bytes per TLC process: bounds the heap a trace part needs (values are ~40x the text)
PART_HEAP = "1500m"


def validate_events(scratch, events, trace_module="Trace_Fn", cfg=None, workers=NCPU, timeout=3600, tag="ev",
                    per_part=4000):
    """Give recorded events to the TLC trace specification.  Returns ({event id: [failing clauses]}, stats)
    (empty list = accepted).  Every event must come back with a verdict, otherwise MachineryError.
    JSON deserialisation inside TLC is sequential and its values are large, so the events are dealt over many small TLC
    processes (at most `workers` at a time, each with a small heap): memory stays bounded however many events there are."""
    agg = TLCResult()
    if not events:
        return {}, agg
    for i, e in enumerate(events):
        e["id"] = i + 1
    t0 = time.time()
    # size estimate from a sample (serialising everything twice would double the cost)
    step = max(1, len(events) // 400)
    sample = events[::step]
    avg = sum(len(json.dumps(e, separators=(",", ":"))) for e in sample) / len(sample)
    nparts = max(1, min(workers, (len(events) + 1499) // 1500), int(avg * len(events) / PART_BYTES) + 1, (len(events) + per_part - 1) // per_part)
    parts = [events[k::nparts] for k in range(nparts)]      # round-robin: expensive events are spread over the parts
    conc = min(workers, len(parts))
    w = max(1, workers // conc)
    from concurrent.futures import ThreadPoolExecutor
    with ThreadPoolExecutor(conc) as ex:
        futs = [ex.submit(_validate_part, scratch, k, part, trace_module, cfg, w, timeout, tag) for k, part in enumerate(parts)]
        res = [f.result() for f in futs]
    verdicts = {}
    for v, r in res:
        verdicts.update(v)
        agg.distinct += r.distinct
        agg.generated += r.generated
    agg.wall = time.time() - t0
    agg.parts = len(parts)
    if len(verdicts) != len(events):
        raise MachineryError("trace validation: %d events, %d verdicts" % (len(events), len(verdicts)))
    return verdicts, agg


def peak_rss_mb():
    """Peak resident memory of this process and of its largest finished child (MB), for the evidence."""
    import resource
    return {"python_mb": resource.getrusage(resource.RUSAGE_SELF).ru_maxrss // 1024,
            "largest_child_mb": resource.getrusage(resource.RUSAGE_CHILDREN).ru_maxrss // 1024}


# --------------------------------------------------------------------------------------------
# evidence / findings
# --------------------------------------------------------------------------------------------
def load_known_findings():
    p = os.path.join(VERIF, "known_findings.json")
    if not os.path.exists(p):
        return []
    return json.load(open(p)).get("findings", [])


def write_evidence(pid, tier, seed, coverage, wall, violations, assumptions, level="model_checking"):
    # a scratch tree is under test (VERIF_REPO), or an exploratory run (other seeds) asked for it: keep /verif/evidence for
    # the registered runs against /repo itself
    if os.path.realpath(REPO) != "/repo" or os.environ.get("VERIF_SCRATCH_EVIDENCE"):
        d = os.path.join(VERIF, ".scratch", "evidence_other_tree")
        os.makedirs(d, exist_ok=True)
        ev = {"property_id": pid, "tier": tier, "seed": int(seed), "level": level, "coverage": coverage,
              "assumptions": assumptions, "wall_s": round(wall, 2), "violations": int(violations), "tree": REPO}
        with open(os.path.join(d, pid + ".json"), "w") as f:
            json.dump(ev, f, indent=1, default=jdefault)
        return ev
    os.makedirs(os.path.join(VERIF, "evidence"), exist_ok=True)
    ev = {"property_id": pid, "tier": tier, "seed": int(seed), "level": level, "coverage": coverage,
          "assumptions": assumptions, "wall_s": round(wall, 2), "violations": int(violations)}
    with open(os.path.join(VERIF, "evidence", pid + ".json"), "w") as f:
        json.dump(ev, f, indent=1, default=jdefault)
    return ev


def write_replay(pid, name, payload):
    d = os.path.join(VERIF, "replays", pid)
    os.makedirs(d, exist_ok=True)
    p = os.path.join(d, name + ".json")
    with open(p, "w") as f:
        json.dump(payload, f, indent=1, default=jdefault)
    return p
