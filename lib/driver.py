"""Generic check driver: (A) model runs, (B) replay into the real code, (C) TLC trace validation,
negative controls, known findings, evidence, exit codes (DESIGN 2.2 / 2.3)."""
import hashlib
import json
import multiprocessing as mp
import os
import random
import shutil
import sys
import time
import traceback

from vlib import (MachineryError, Scratch, SPEC, VERIF, NCPU, run_tlc, tlc_ok, validate_events, load_known_findings, peak_rss_mb, compact,
                  write_evidence, write_replay)

_EXEC = None


def _run_one(case):
    try:
        return compact(_EXEC(case))
    except Exception as ex:  # the executor itself must never raise: it logs outcomes
        return {"fn": "machinery", "error": "%s: %s" % (type(ex).__name__, ex), "tb": traceback.format_exc(), "case": case}


def _match_value(cond, v):
    if isinstance(cond, dict):
        for k, c in cond.items():
            if k == "lt" and not (v is not None and v < c):
                return False
            if k == "gt" and not (v is not None and v > c):
                return False
            if k == "in" and v not in c:
                return False
            if k == "prefix" and not (isinstance(v, str) and v.startswith(c)):
                return False
        return True
    return cond == v


def finding_matches(f, event, clause):
    if f.get("status") != "open":
        return False
    if not clause.startswith(f.get("clause_prefix", "")):
        return False
    tags = event.get("tags", {})
    for k, cond in f.get("match", {}).items():
        v = tags.get(k, event.get(k))
        if not _match_value(cond, v):
            return False
    return True


class Check:
    def __init__(self, pid, argv=None, level="model_checking"):
        argv = list(sys.argv[1:] if argv is None else argv)
        self.pid = pid
        self.level = level
        self.replay_path = None
        self.tier = os.environ.get("VERIF_TIER", "quick")
        for a in argv:
            if a in ("quick", "thorough"):
                self.tier = a
        if "--replay" in argv:
            self.replay_path = argv[argv.index("--replay") + 1]
        self.seed = int(os.environ.get("VERIF_SEED", "0") or 0)
        self.rng = random.Random(self.seed * 1000003 + int(hashlib.sha1(pid.encode()).hexdigest()[:6], 16))
        self.t0 = time.time()
        self.scratch = Scratch(pid)
        self.states = 0
        self.transitions = 0
        self.model_runs = []
        self.events = []
        self.negs = []
        self.assumptions = []
        self.coverage_extra = {}
        self.nontrivial = set()
        self.rule = ""
        self.tlc_trace_wall = 0.0

    @property
    def thorough(self):
        return self.tier == "thorough"

    # ---- (A) --------------------------------------------------------------------------------
    def model(self, module, cfg, workers=NCPU, timeout=3000, coverage=False, simulate=None, depth=None,
              require_actions=(), env=None, allow_violation=False, heap="8g", emits_all=True):
        """Run a bounded instance spec/mc/<module>.tla with spec/mc/<cfg>.  A counterexample or error on the
        model itself is a machinery error (it cannot be caused by editing /repo)."""
        for ext in (".tla",):
            src = os.path.join(SPEC, "mc", module + ext)
            if os.path.exists(src):
                shutil.copy(src, self.scratch.path(module + ext))
        cfgp = cfg if os.path.isabs(cfg) else os.path.join(SPEC, "mc", cfg)
        r = run_tlc(self.scratch.dir, module, cfgp, workers=workers, timeout=timeout, coverage=coverage,
                    simulate=simulate, depth=depth, seed=self.seed if simulate else None, env=env, heap=heap)
        if not allow_violation:
            tlc_ok(r, "%s/%s" % (module, os.path.basename(cfgp)))
        if emits_all and r.json_lines and not simulate and len(r.json_lines) != r.distinct - r.init_states:
            raise MachineryError("%s: %d behaviours emitted, %d expected (torn output?)" % (module, len(r.json_lines), r.distinct - r.init_states))
        self.states += r.distinct
        self.transitions += r.generated
        self.model_runs.append({"module": module, "cfg": os.path.basename(cfgp), "distinct_states": r.distinct,
                                "states_generated": r.generated, "depth": r.depth, "wall_s": round(r.wall, 1),
                                "emitted": len(r.json_lines)})
        for a in require_actions:
            if r.coverage.get(a, 0) == 0:
                raise MachineryError("vacuous: action/operator %s never evaluated in %s" % (a, module))
        return r

    # ---- (B) --------------------------------------------------------------------------------
    def run_cases(self, cases, execute, procs=NCPU, chunksize=64):
        global _EXEC
        _EXEC = execute
        cases = list(cases)
        if not cases:
            return []
        if procs <= 1 or len(cases) < 200:
            evs = [_run_one(c) for c in cases]
        else:
            ctx = mp.get_context("fork")
            with ctx.Pool(procs) as pool:
                evs = pool.map(_run_one, cases, chunksize=chunksize)
        for e in evs:
            if e.get("fn") == "machinery":
                raise MachineryError("executor failed: %s\n%s" % (e["error"], e.get("tb", "")))
        self.events.extend(evs)
        return evs

    def add_negative(self, event, expect_prefix):
        """A deliberately corrupted copy of a recorded event; the trace spec must reject it."""
        e = json.loads(json.dumps(event))
        e["_neg"] = expect_prefix
        self.negs.append(e)

    def negative_from(self, events, pred, mutate, expect_prefix):
        """Negative control built from the first recorded event satisfying pred (a deep copy is mutated).  If the tree under
        test yields no such event (a broken tree may not), the control is skipped and counted - never a machinery error."""
        src = next((e for e in events if pred(e)), None)
        if src is None:
            self.neg_skipped = getattr(self, "neg_skipped", 0) + 1
            return False
        e = json.loads(json.dumps(src))
        mutate(e)
        e["_neg"] = expect_prefix
        self.negs.append(e)
        return True

    def count_nontrivial(self, key):
        if not isinstance(key, (str, int, tuple)):
            key = json.dumps(key, sort_keys=True)
        # a digest, not the key: thorough runs count hundreds of thousands of multi-kilobyte keys
        self.nontrivial.add(hashlib.sha1(repr(key).encode()).digest()[:12])

    # ---- (C) --------------------------------------------------------------------------------
    def finish(self, trace_module="Trace_Fn", samples=None, own_prefixes=None, workers=NCPU, exhaustive=None,
               foreign_ok=True):
        own = tuple(own_prefixes or (self.pid + ".",))
        allev = self.events + self.negs
        strip = []
        for e in allev:  # fields that are only for the harness
            strip.append({k: v for k, v in e.items() if k not in ("tags", "_neg", "meta")})
        verdicts, r = validate_events(self.scratch, strip, trace_module=trace_module, workers=workers)
        self.tlc_trace_wall = r.wall
        findings = load_known_findings()
        violations, known, drift, foreign = [], {}, 0, 0
        skipped = 0
        drift_clauses = {}
        for i, e in enumerate(allev):
            failing = verdicts[i + 1]
            if failing == ["skipped.range"]:
                if "_neg" in e:
                    raise MachineryError("negative control outside the judge's arithmetic range")
                skipped += 1
                continue
            if any(c.startswith("machinery.") for c in failing):
                raise MachineryError("trace spec cannot judge event %r: %s" % ({k: e[k] for k in list(e)[:6]}, failing))
            if "_neg" in e:
                if not any(c.startswith(e["_neg"]) for c in failing):
                    raise MachineryError("negative control accepted: expected %s, got %s" % (e["_neg"], failing))
                continue
            mine = [c for c in failing if c.startswith(own)]
            if any(c.startswith("impl.") for c in failing):
                drift += 1
                for c in failing:
                    if c.startswith("impl."):
                        drift_clauses[c] = drift_clauses.get(c, 0) + 1
            if any((not c.startswith(own)) and not c.startswith("impl.") for c in failing):
                foreign += 1
            unexplained = []
            for c in mine:
                hit = next((f for f in findings if f.get("property") == self.pid and finding_matches(f, e, c)), None)
                if hit is not None:
                    known.setdefault(hit["id"], [hit, 0])[1] += 1
                else:
                    unexplained.append(c)
            if unexplained:
                violations.append((e, unexplained))
        if skipped > max(5, len(allev) // 50):
            raise MachineryError("%d of %d events outside the 32-bit range of the judge" % (skipped, len(allev)))
        for fid, (f, n) in sorted(known.items()):
            print("KNOWN-FINDING: property=%s %s (%d matching cases this run)" % (self.pid, f["what"], n))
        shutil.rmtree(os.path.join(VERIF, "replays", self.pid), ignore_errors=True) if not self.replay_path else None
        seen_clause = {}
        for e, cl in violations:
            key = cl[0]
            seen_clause[key] = seen_clause.get(key, 0) + 1
            if seen_clause[key] > 3:
                continue
            p = write_replay(self.pid, "%s-%d" % (key.replace(".", "_").replace("/", "_"), seen_clause[key]),
                             {"property": self.pid, "failing_clauses": cl, "event": e})
            print("VIOLATION property=%s replay=%s clauses=%s" % (self.pid, p, ",".join(cl)))
        wall = time.time() - self.t0
        smp = samples if samples is not None else [
            {k: v for k, v in e.items() if k not in ("meta",)} for e in self.events[:2] + self.events[-1:]]
        cov = {"states": self.states, "transitions": self.transitions,
               "traces_validated_against_impl": len(self.events),
               "samples": smp, "evaluations": len(self.events), "distinct_nontrivial": len(self.nontrivial),
               "rule": self.rule, "model_runs": self.model_runs, "negative_controls_rejected": len(self.negs), "negative_controls_skipped_no_source_event": getattr(self, "neg_skipped", 0),
               "drift_events": drift, "drift_clauses": drift_clauses, "events_outside_judge_arithmetic_range": skipped, "events_failing_only_other_properties_clauses": foreign,
               "known_finding_cases": {k: v[1] for k, v in known.items()},
               "trace_validation_wall_s": round(self.tlc_trace_wall, 1), "peak_memory": peak_rss_mb()}
        if exhaustive is not None:
            cov["exhaustive"] = exhaustive
        cov.update(self.coverage_extra)
        if not self.replay_path:
            write_evidence(self.pid, self.tier, self.seed, cov, wall, len(violations), self.assumptions, self.level)
        self.scratch.cleanup()
        print("%s %s: %d model states, %d events judged by TLC, %d violations, %d drift, %.1fs" % (
            self.pid, self.tier, self.states, len(self.events), len(violations), drift, wall))
        return 1 if violations else 0


def main(run):
    """run(check) -> exit code; wraps machinery failures into exit 2."""
    try:
        rc = run()
    except MachineryError as ex:
        print("MACHINERY-ERROR: %s" % ex, file=sys.stderr)
        rc = 2
    except Exception:
        traceback.print_exc()
        rc = 2
    sys.exit(rc)
