"""C09 - Weaver state stays well-formed; caller data and the original are never corrupted."""
import copy
import json

from driver import Check, main
from fnexec import execute
from weaverfam import maximal_histories, from_emission, random_program, random_restore_case, shape_cover


def run():
    c = Check("C09")
    r = c.model("MC_Weaver", "MC_Weaver_%s.cfg" % c.tier, timeout=3400, emits_all=False)
    hs = maximal_histories(r.json_lines)
    if not c.thorough:
        hs = [j for i, j in enumerate(hs) if i % 4 == c.seed % 4]
    cases = [from_emission(j) for j in hs]
    lattice = len(cases)
    nr = 12000 if c.thorough else 1600
    for i in range(nr):
        cases.append(random_program(c.rng) if i % 4 else random_restore_case(c.rng))
    # shape / aliasing abstraction: the whole labelled state graph from TLC, one real program per transition
    r2 = c.model("MC_WeaverShape", "MC_WeaverShape_%s.cfg" % c.tier, emits_all=False)
    progs, covered, total_edges = shape_cover(r2.json_lines, c.rng, extra_walks=2000 if c.thorough else 200)
    if covered != total_edges:
        from driver import MachineryError
        raise MachineryError("transition cover incomplete: %d of %d edges" % (covered, total_edges))
    if not c.thorough:
        progs = [p for i, p in enumerate(progs) if i % 8 == c.seed % 8]
    cases += progs
    if c.replay_path:
        cases = [json.load(open(c.replay_path))["event"]["meta"]["case"]]
    evs = c.run_cases(cases, execute)
    c.events = [{k: v for k, v in e.items() if k not in ("case", "meta")} for e in evs]
    kinds = set()
    for e, k in zip(c.events, cases):
        e["meta"] = {"case": k}
        ops = k["ops"] if "ops" in k else k["acts"] if "acts" in k else (k["prefix"] + k["suffix"])
        kinds.update(o["k"] for o in ops)
        if len(ops) >= 3:
            c.count_nontrivial(json.dumps(k, sort_keys=True))
    if not c.replay_path:
        first_ok = lambda e: (e["fn"] == "whist" and e["steps"] and e["steps"][0]["outcome"] == "ok" and e["steps"][0]["kinds"] == "ok"
                              and e["steps"][0]["op"]["k"] in ("shift_y", "scale_y", "trend", "repeat", "append"))
        for field, val, prefix in (("caller", False, "C09.caller_modified"), ("orig_same", False, "C09.original_changed"), ("kinds", "list/ndarray1f", "C09.wellformed")):
            c.negative_from(c.events, first_ok, lambda e, field=field, val=val: e["steps"][0].__setitem__(field, val), prefix)
        c.negative_from(c.events, lambda e: e["fn"] == "wrestore" and e["a"] and e["b"] and e["a"][0]["outcome"] == "ok" and len(e["a"][0]["rx"]) > 1
                        and e["a"][0]["rx"] != list(reversed(e["a"][0]["rx"])),
                        lambda e: e["a"][0].__setitem__("rx", list(reversed(e["a"][0]["rx"]))), "C09.restore_bisimilar")
    c.rule = ("programs of up to 10 operations over the whole public Weaver API (%d operation kinds seen this run: %s), all six strategies, all "
              "four interpolation methods, list / array / int arguments, each respecting the operation's documented precondition (decided by "
              "Weaver!OutOfScope), on random series of 4..14 start points growing up to ~80; after every call: container kinds, equal lengths, "
              "finiteness, strictly increasing abscissae, bytes of the caller's arrays (incl. grids handed to interpolate) before/after the "
              "call, bytes of the original before/after; restore: prefix program, restore_original, suffix program compared step by step "
              "with the same suffix on a fresh Weaver(get_original()); shape abstraction (MC_WeaverShape): all programs <= 10 operations over "
              "abstract operation kinds explored by TLC, the labelled state graph emitted, a transition cover (every edge on one real "
              "program; an eighth of it in the quick tier) replayed and validated step by step against the abstraction (lengths, which "
              "caller buffers x / y share memory with, no caller buffer written); plus a quarter (quick) / all (thorough) of the MC_Weaver histories. "
              "non-trivial = >= 3 operations; distinct by case" % (len(kinds), ", ".join(sorted(kinds))))
    c.coverage_extra = {"shape_graph_states": r2.distinct, "shape_graph_transitions": total_edges, "shape_programs_replayed": len(progs),
                        "lattice_histories_from_tlc": lattice, "random_programs": len(cases) - lattice - len(progs), "operation_kinds_seen": sorted(kinds),
                        "steps_observed": sum(len(e.get("steps", [])) + len(e.get("a", [])) for e in evs)}
    c.assumptions = ["TLC 1.8, CommunityModules Json/IOUtils", "caller / original frame flags are byte comparisons of snapshots taken by the harness around every call",
                     "values after environment steps (spline, noise) are not recomputed by the specification; lengths, abscissae, reference and original still are",
                     "noise uses a fixed NumPy seed per operation so that the restored and the fresh object see the same draws"]
    return c.finish(exhaustive=False)


main(run)
