"""Executors: replay one case (exact rational inputs) into the real code and record what it did.
An executor never judges; it logs outcome class + projected outputs."""
import json
import os
import re
import warnings

import numpy as np

from vlib import fx, fxs, use_repo

use_repo()
import traffic_weaver.sorted_array_utils as sau  # noqa: E402
import traffic_weaver.process as proc  # noqa: E402
from traffic_weaver.interval import IntervalArray  # noqa: E402

NONE = [0, -1]
NONEINT = -999999


def fl(r):
    return r[0] / r[1]


def arr(rs, container="array"):
    if container == "list":
        return [fl(r) for r in rs]
    if container == "intlist" and all(r[1] == 1 for r in rs):
        return [int(r[0]) for r in rs]
    if container == "int" and all(r[1] == 1 for r in rs):
        return np.array([r[0] for r in rs], dtype=np.int64)
    if container in ("int8", "uint8", "int16", "uint16", "int32") and all(r[1] == 1 for r in rs):
        info = np.iinfo(container)          # narrow integer arrays (sample indices, hours, ...) when the values fit
        if all(info.min <= r[0] <= info.max for r in rs):
            return np.array([r[0] for r in rs], dtype=container)
    if container == "series":                     # a pandas Series with the default index is array-like too
        import pandas as pd
        return pd.Series(np.array([fl(r) for r in rs], dtype=float))
    return np.array([fl(r) for r in rs], dtype=float)


def xoff(c):
    """Optional exact translation of the time axis: every abscissa-like input is moved by sign * 2**power (exactly
    representable together with the dyadic inputs), every abscissa-like output is moved back before it is recorded, so the
    specification judges the untranslated problem.  For selections, repeats, interpolation on an explicit grid and matching
    all intermediate differences of abscissae are exact, so the result must be the same to the last bit."""
    o = c.get("xoff")
    return 0.0 if not o else o[0] * 2.0 ** o[1]


def xarr(rs, container, off):
    a = arr(rs, container)
    if not off:
        return a
    if isinstance(a, list):
        return [v + (int(off) if isinstance(v, int) else off) for v in a]
    return a + (int(off) if a.dtype.kind in "iu" else off)          # ndarray and Series alike


def xvec(v, off, scl=1.0):
    if not off and scl == 1.0:
        return vec(v)
    try:
        return vec((np.asarray(v, dtype=float) - off) / scl)
    except Exception:
        return [[5, 0, 0]]


def opt(r):
    return None if r == NONE else fl(r)


def guarded(f):
    try:
        with warnings.catch_warnings():
            warnings.simplefilter("ignore")
            return "ok", f()
    except Exception as ex:  # noqa
        return type(ex).__name__, None


def vec(v):
    """Project a returned 1-D array-like to limbs; anything that is not a 1-D sequence of reals -> []."""
    try:
        a = np.asarray(v)
        if a.ndim != 1:
            return [[5, 0, 0]]
        return fxs(a.tolist())
    except Exception:
        return [[5, 0, 0]]


def mat(v):
    try:
        a = np.asarray(v, dtype=float)
        if a.ndim != 2:
            return [[[5, 0, 0]]]
        return [fxs(row) for row in a.tolist()]
    except Exception:
        return [[[5, 0, 0]]]


def kind(v):
    if isinstance(v, np.ndarray):
        return "ndarray%d%s" % (v.ndim, v.dtype.kind)
    return type(v).__name__


# ---------------------------------------------------------------------------------------------- C17
def ex_oversample(c):
    a = arr(c["a"], c.get("container", "array"))
    oc1, o1 = guarded(lambda: sau.oversample_linspace(a, c["num"]))
    oc2, o2 = guarded(lambda: sau.oversample_piecewise_constant(a, c["num"]))
    e = dict(c)
    e.update(outcome="ok" if (oc1, oc2) == ("ok", "ok") else oc1 if oc1 != "ok" else oc2,
             out_lin=vec(o1) if oc1 == "ok" else [], out_pw=vec(o2) if oc2 == "ok" else [])
    return e


def ex_extend(c):
    a = arr(c["a"], c.get("container", "array"))
    oc1, o1 = guarded(lambda: sau.extend_linspace(a, c["n"], direction=c["dir"], lstart=opt(c["lstart"]), rstop=opt(c["rstop"])))
    oc2, o2 = guarded(lambda: sau.extend_constant(a, c["n"], direction=c["dir"]))
    e = dict(c)
    e.update(outcome="ok" if (oc1, oc2) == ("ok", "ok") else oc1 if oc1 != "ok" else oc2,
             out_lin=vec(o1) if oc1 == "ok" else [], out_const=vec(o2) if oc2 == "ok" else [])
    return e


def ex_append(c):
    x, y = arr(c["x"], c.get("container", "array")), arr(c["y"], c.get("container", "array"))
    flag = {"np": np.bool_(c["periodic"]), "int": int(c["periodic"])}.get(c.get("pflag"), c["periodic"])     # truthy forms of the flag
    oc, o = guarded(lambda: sau.append_one_sample(x, y, make_periodic=flag))
    e = dict(c)
    e.update(outcome=oc, outx=vec(o[0]) if oc == "ok" else [], outy=vec(o[1]) if oc == "ok" else [])
    return e


def ex_integral(c):
    x, y = arr(c["x"]), arr(c["y"])
    r = {}
    ocs = []
    for key, f in (("out_rect", lambda: sau.rectangle_integral(x, y)), ("out_trap", lambda: sau.trapezoid_integral(x, y)),
                   ("out_rect_d", lambda: sau.integral(x, y, "rectangle")), ("out_trap_d", lambda: sau.integral(x, y, "trapezoid"))):
        oc, o = guarded(f)
        ocs.append(oc)
        r[key] = vec(o) if oc == "ok" else []
    oc, _ = guarded(lambda: sau.integral(x, y, "simpson"))
    e = dict(c)
    e.update(r)
    e.update(outcome=next((o for o in ocs if o != "ok"), "ok"), bad_rule_outcome=oc)
    return e


def ex_sum_over(c):
    a = arr(c["a"])
    oc, o = guarded(lambda: sau.sum_over_indices(a, c["idx"]))
    e = dict(c)
    e.update(outcome=oc, out=vec(o) if oc == "ok" else [])
    return e


def ex_interval(c):
    a = arr(c["a"])
    n = c["n"]

    def run():
        ia = IntervalArray(a.copy(), n)
        gets = [[i, j, fx(ia[i, j])] for i, j in c["get_ij"]]
        t2 = mat(ia.to_2d_array())
        t2c = mat(ia.to_2d_array_closed_intervals())
        t2ca = mat(ia.to_2d_array_closed_intervals(drop_last=False))
        nr, ln = int(ia.nr_of_full_intervals()), int(len(ia))
        ol, op = ia.oversample_linspace(c["num"]), ia.oversample_piecewise(c["num"])
        ovl, ovp, ovn = vec(ol.array), vec(op.array), int(ol.n) if ol.n == op.n else -1
        ib = IntervalArray(a.copy(), n)
        ib.to_2d_array()                               # the layout is requested before and after the writes
        for i, j, v in c["sets"]:
            ib[i, j] = fl(v)
        t2s = mat(ib.to_2d_array())
        # beyond the listed property: flat integer index, iteration, repr, too many indices, extension through the view
        L = len(a)
        fk = sorted({0, L - 1, -1, -L, L // 2})
        fgets = [[k, fx(ia[k])] for k in fk]
        ic = IntervalArray(a.copy(), n)
        fsets = [[k, [1000 + 3 * t, 1]] for t, k in enumerate(fk[:3])]
        for k, v in fsets:
            ic[k] = fl(v)
        it = vec(np.asarray(list(iter(ia)), dtype=float))
        rp = repr(ia)
        m = re.fullmatch(r"IntervalArray\((\[.*\]), n=(-?\d+)\)", rp, re.S)
        rvals, rn = (vec(np.asarray(json.loads(m.group(1)), dtype=float)), int(m.group(2))) if m else ([], -1)
        idx3 = guarded(lambda: ia[0, 0, 0])[0]
        set3 = guarded(lambda: ia.__setitem__((0, 0, 0), 1.0))[0]
        ext_dir = ("both", "left", "right")[L % 3]
        il, icn = IntervalArray(a.copy(), n), IntervalArray(a.copy(), n)
        ext_lin = []
        if L > n:
            il.extend_linspace(ext_dir)
            ext_lin = vec(il.array)
        icn.extend_constant(ext_dir)
        lst = IntervalArray(a.tolist(), n)               # list input is documented
        return dict(gets=gets, to2d=t2, to2d_closed=t2c, to2d_closed_all=t2ca, nr_full=nr, len=ln,
                    ov_lin=ovl, ov_pw=ovp, ov_n=ovn, after_sets=vec(ib.array), to2d_after_sets=t2s,
                    fgets=fgets, fsets=fsets, after_fsets=vec(ic.array), iter=it, repr_vals=rvals, repr_n=rn, idx3=idx3, set3=set3,
                    ext_dir=ext_dir, ext_lin=ext_lin, ext_const=vec(icn.array), ext_n=int(il.n) if il.n == icn.n else -1,
                    from_list=vec(np.asarray(lst.array, dtype=float)), from_list_kind=type(lst.array).__name__)

    oc, o = guarded(run)
    e = {k: v for k, v in c.items() if k != "get_ij"}
    if oc != "ok":
        o = dict(gets=[], to2d=[], to2d_closed=[], to2d_closed_all=[], nr_full=-1, len=-1, ov_lin=[], ov_pw=[], ov_n=-1, after_sets=[], to2d_after_sets=[],
                 fgets=[], fsets=[], after_fsets=[], iter=[], repr_vals=[], repr_n=-1, idx3="", set3="", ext_dir="both", ext_lin=[],
                 ext_const=[], ext_n=-1, from_list=[], from_list_kind="")
    e.update(o)
    e["outcome"] = oc
    return e


def ex_average(c):
    x, y = arr(c["x"]), arr(c["y"])
    oc, o = guarded(lambda: proc.average(x, y, c["n"]))
    e = dict(c)
    e.update(outcome=oc, outx=vec(o[0]) if oc == "ok" else [], outy=vec(o[1]) if oc == "ok" else [])
    return e


EXECUTORS = {"oversample": ex_oversample, "extend": ex_extend, "append": ex_append, "integral": ex_integral,
             "sum_over": ex_sum_over, "interval": ex_interval, "average": ex_average}


def execute(case):
    return EXECUTORS[case["fn"]](case)


# ---------------------------------------------------------------------------------------------- Weaver helpers
from traffic_weaver import Weaver  # noqa: E402


def snap(w):
    """Bitwise snapshot of the three series of a Weaver (for frame conditions)."""
    out = []
    for a in (w.x, w.y, w.reference_x, w.reference_y, w.original_x, w.original_y):
        try:
            arr_ = np.asarray(a)
            out.append((str(arr_.dtype), arr_.shape, arr_.tobytes()))
        except Exception:
            out.append(("?", None, repr(a)))
    return out


def wrun(x, y, f, xnone=False):
    """Fresh Weaver on copies of x, y; apply f; return (outcome, weaver, unchanged-on-error).  xnone: the documented form
    Weaver(None, y) - the abscissae are the sample positions 0, 1, 2, ... (x must be exactly that)."""
    w = Weaver(None, np.array(y, copy=True)) if xnone else Weaver(np.array(x, copy=True), np.array(y, copy=True))
    before = snap(w)
    oc, _ = guarded(lambda: f(w))
    return oc, w, (snap(w) == before)


def wfields(w, oc, ref=True, orig=False, off=0.0, scl=1.0):
    d = {}
    ok = oc == "ok"
    g = guarded(lambda: (w.get(), w.get_reference(), w.get_original()))[1] if ok else None
    d["wx"], d["wy"] = (xvec(g[0][0], off, scl), vec(g[0][1])) if g else ([], [])
    if ref:
        d["wrx"], d["wry"] = (xvec(g[1][0], off, scl), vec(g[1][1])) if g else ([], [])
    if orig:
        d["wox"], d["woy"] = (xvec(g[2][0], off, scl), vec(g[2][1])) if g else ([], [])
    d["wkind"] = (kind(g[0][0]) if kind(g[0][0]) == kind(g[0][1]) else kind(g[0][0]) + "/" + kind(g[0][1])) if g else "none"
    return d


# ---------------------------------------------------------------------------------------------- C12
def ex_repeat(c):
    off = xoff(c)
    x, y = xarr(c["x"], c.get("container", "array"), off), arr(c["y"], c.get("container", "array"))
    # optional exact change of the time unit by a power of two (sub-nanosecond scales): repeat commutes with it bit for bit
    scl = 2.0 ** c["xscl"] if c.get("xscl") else 1.0
    if scl != 1.0:
        x = np.asarray(x, dtype=float) * scl
    rr = np.int64(c["r"]) if c.get("r_kind") == "np" else c["r"]
    oc, o = guarded(lambda: proc.repeat(x, y, rr))
    if "x0" in c:       # Weaver-level: the repeat is requested after a history (`pre`) that leads from (x0, y0) to (x, y)
        def go(w):
            for op in c["pre"]:
                wcall(w, op)
            return w.repeat(rr)
        woc, w, _ = wrun(arr(c["x0"]), arr(c["y0"]), go, xnone=bool(c.get("xnone")))
    else:
        woc, w, _ = wrun(x, y, lambda w: w.repeat(rr), xnone=bool(c.get("xnone")))
    e = {k: v for k, v in c.items() if k not in ("x0", "y0", "pre")}
    e["reshaped"] = "x0" in c
    e.update(outcome=oc, outx=xvec(o[0], off, scl) if oc == "ok" else [], outy=vec(o[1]) if oc == "ok" else [], w_outcome=woc)
    e.update(wfields(w, woc, off=off, scl=scl))
    return e


def ex_repeat2(c):
    x, y = arr(c["x"]), arr(c["y"])

    def run():
        ax, ay = proc.repeat(x, y, c["a"])
        abx, aby = proc.repeat(ax, ay, c["b"])
        px, py = proc.repeat(x, y, c["a"] * c["b"])
        return abx, aby, px, py
    oc, o = guarded(run)
    e = dict(c)
    e.update(outcome=oc, abx=vec(o[0]) if o else [], aby=vec(o[1]) if o else [], px=vec(o[2]) if o else [], py=vec(o[3]) if o else [])
    return e


# ---------------------------------------------------------------------------------------------- C11
def ex_truncate(c):
    off = xoff(c)
    x, y = xarr(c["x"], c.get("container", "array"), off), arr(c["y"], c.get("container", "array"))
    l, r = fl(c["left"]) + (0.0 if c["lr"] else off), fl(c["right"]) + (0.0 if c["rr"] else off)
    oc, o = guarded(lambda: proc.truncate(x, y, l, r, c["lr"], c["rr"]))
    if "pre" in c:      # the Weaver is built on (rx0, ry0) and brought to (x, y) by the `pre` operations before the cut
        def go(w):
            for op in c["pre"]:
                wcall(w, op)
            return w.truncate_by_value(l, r, x_left_as_ratio=c["lr"], x_right_as_ratio=c["rr"])
        woc, w, unch = wrun(arr(c["rx0"]), arr(c["ry0"]), go)
        unch = True
    else:
        woc, w, unch = wrun(x, y, lambda w: w.truncate_by_value(l, r, x_left_as_ratio=c["lr"], x_right_as_ratio=c["rr"]))
    e = {k: v for k, v in c.items() if k != "pre"}
    e.update(outcome=oc, outx=xvec(o[0], off) if oc == "ok" else [], outy=vec(o[1]) if oc == "ok" else [], w_outcome=woc, w_unchanged=unch)
    e.update(wfields(w, woc, off=off))
    return e


def ex_slice_value(c):
    off = xoff(c)
    x, y = xarr(c["x"], c.get("container", "array"), off), arr(c["y"], c.get("container", "array"))
    w = Weaver(x, y)
    kw = {}
    if c["start"] != NONE:
        kw["start"] = fl(c["start"]) + off
    if c["stop"] != NONE:
        kw["stop"] = fl(c["stop"]) + off
    if c.get("explicit_none"):
        kw.setdefault("start", None)
        kw.setdefault("stop", None)
    oc, o = guarded(lambda: w.slice_by_value(step=c["step"], **kw))
    e = dict(c)
    e.update(outcome=oc, outx=xvec(o[0], off) if oc == "ok" else [], outy=vec(o[1]) if oc == "ok" else [])
    return e


def ex_slice_index(c):
    x, y = arr(c["x"], c.get("container", "array")), arr(c["y"], c.get("container", "array"))
    w = Weaver(x, y)
    stop = None if c["stop"] == NONEINT else c["stop"]
    oc, o = guarded(lambda: w.slice_by_index(c["start"], stop, c["step"]))
    e = dict(c)
    e.update(outcome=oc, outx=vec(o[0]) if oc == "ok" else [], outy=vec(o[1]) if oc == "ok" else [])
    return e


def ex_truncate_index(c):
    x, y = arr(c["x"], c.get("container", "array")), arr(c["y"], c.get("container", "array"))
    stop = None if c["stop"] == NONEINT else c["stop"]
    woc, w, unch = wrun(x, y, lambda w: w.truncate_by_index(c["start"], stop))
    e = dict(c)
    e.update(outcome=woc, w_unchanged=unch)
    e.update(wfields(w, woc))
    return e


# ---------------------------------------------------------------------------------------------- C14
def poly(c):
    c0, c1, c2 = (fl(v) for v in c)
    return lambda t: c0 + c1 * t + c2 * t * t


def ex_trend(c):
    x0, y0 = arr(c["x"], c.get("xcontainer", c.get("container", "array"))), arr(c["y"], c.get("container", "array"))
    xc, yc = np.array(x0, copy=True), np.array(y0, copy=True)
    f = poly(c["c"])
    if c.get("intcoef"):          # a callable written with integer coefficients: c0 + c1*t + c2*t*t evaluated on whatever t it is handed
        i0, i1, i2 = (int(r[0]) for r in c["c"])
        f = lambda t: i0 + i1 * t + i2 * t * t
    if c.get("form") == "dot":    # coefficient form with a reduction: one number per call, whatever it is handed
        cv = np.array([fl(v) for v in c["c"]])
        f = lambda t: np.dot(cv, t ** np.arange(3))
    seen = []

    def rec(t):
        if np.ndim(t) == 0:
            seen.append(float(t))
        else:                     # handed a whole axis: recorded as such (the clause on the arguments then fails unless it is one sample)
            seen.extend(float(v) for v in np.ravel(t))
        return f(t)
    dflt = (not c["normalized"]) and len(c["x"]) % 2 == 0      # documented default of `normalized` left implicit in half of the calls
    oc, o = guarded(lambda: proc.trend(xc, yc, rec) if dflt else proc.trend(xc, yc, rec, c["normalized"]))
    # the Weaver is built on the caller's own arrays (as a user would): is the caller's data modified?
    cx, cy = np.array(x0, copy=True), np.array(y0, copy=True)
    bx, by = cx.tobytes(), cy.tobytes()
    w = Weaver(cx, cy)
    if "pre" in c:       # the Weaver is built on (rx0, ry0) and brought to (x, y) by the `pre` operations before the request
        w = Weaver(arr(c["rx0"]), arr(c["ry0"]))
        for op in c["pre"]:
            wcall(w, op)
    woc, _ = guarded(lambda: w.trend(f) if dflt else w.trend(f, normalized=c["normalized"]))
    e = {k: v for k, v in c.items() if k != "pre"}
    e.update(outcome=oc, outx=vec(o[0]) if oc == "ok" else [], outy=vec(o[1]) if oc == "ok" else [], fargs=fxs(seen),
             w_outcome=woc, caller_modified=bool(cx.tobytes() != bx or cy.tobytes() != by))
    e.update(wfields(w, woc))
    return e


def ex_linear_trend(c):
    x, y = arr(c["x"], c.get("container", "array")), arr(c["y"], c.get("container", "array"))
    oc, o = guarded(lambda: proc.linear_trend(np.array(x, copy=True), np.array(y, copy=True), fl(c["a"]), c["normalized"]))
    e = dict(c)
    e.update(outcome=oc, outx=vec(o[0]) if oc == "ok" else [], outy=vec(o[1]) if oc == "ok" else [])
    return e


def ex_normalize(c):
    a, other = arr(c["a"], c.get("container", "array")), arr(c["other"], c.get("container", "array"))
    lo, hi = fl(c["lo"]), fl(c["hi"])
    if c.get("aoff"):        # the same series on a level far above its spread: normalising removes the level exactly
        L = c["aoff"][0] * 2.0 ** c["aoff"][1]
        a = [v + L for v in a] if isinstance(a, list) else a + (int(L) if a.dtype.kind in "iu" else L)
    if c["lo"][1] == 1 and c["hi"][1] == 1 and len(c["a"]) % 3 == 0:       # integer-valued range handed over as Python ints
        lo, hi = int(lo), int(hi)
    if c["lo"] == [0, 1] and c["hi"] == [1, 1] and len(c["a"]) % 2 == 0:      # documented default range left implicit
        oc, o = guarded(lambda: proc.normalize(a))
    else:
        oc, o = guarded(lambda: proc.normalize(a, lo, hi))
    if c["axis"] == "x":
        woc, w, _ = wrun(a, other, lambda w: w.normalize_x(lo, hi))
    else:
        woc, w, _ = wrun(other, a, lambda w: w.normalize_y(lo, hi))
    e = dict(c)
    e.update(outcome=oc, out=vec(o) if oc == "ok" else [], w_outcome=woc)
    f = wfields(w, woc, orig=True)
    ax, ot = ("x", "y") if c["axis"] == "x" else ("y", "x")
    e.update(w_axis=f["w" + ax], w_other=f["w" + ot], wr_axis=f["wr" + ax], wr_other=f["wr" + ot],
             wo_axis=f["wo" + ax], wo_other=f["wo" + ot])
    return e


def ex_shiftscale(c):
    # optional history of earlier shifts / scales: the Weaver is built on (x0, y0), the `pre` operations are applied, and the
    # judge gets the exact series after that history as (x, y)
    x, y = (arr(c["x0"], c.get("container", "array")), arr(c["y0"], c.get("container", "array"))) if "x0" in c else \
        (arr(c["x"], c.get("container", "array")), arr(c["y"], c.get("container", "array")))
    v = fl(c["v"])

    def go(w):
        for op in c.get("pre", []):
            wcall(w, op)
        return getattr(w, c["op"])(v)
    woc, w, _ = wrun(x, y, go)
    e = {k: v2 for k, v2 in c.items() if k not in ("x0", "y0", "pre")}
    e.update(outcome=woc)
    e.update(wfields(w, woc))
    return e


# ---------------------------------------------------------------------------------------------- C13
def ex_interp(c):
    off = xoff(c)
    x, y, q = xarr(c["x"], c.get("xcontainer", "array"), off), arr(c["y"], c.get("ycontainer", "array")), xarr(c["q"], c.get("qcontainer", "array"), off)
    kw = {} if c["left"] == NONE else {"left": fl(c["left"])}
    coc, co = guarded(lambda: proc.interpolate(x, y, q, method="constant", **kw))
    loc, lo = guarded(lambda: proc.interpolate(x, y, q) if len(c["x"]) % 2 == 0 else proc.interpolate(x, y, q, method="linear"))
    boc, bo = guarded(lambda: proc.interpolate(x, y, q, method="quadratic"))
    if boc == "ok":
        boc = "returned:" + type(bo).__name__
    e = dict(c)
    e.update(c_outcome=coc, c_out=vec(co) if coc == "ok" else [], l_outcome=loc, l_out=vec(lo) if loc == "ok" else [], bad_outcome=boc)
    return e


def ex_interp_env(c):
    """cubic / spline: values at the nodes, an arbitrary grid, and affine data m*x+b on the same grid."""
    x, y, q = arr(c["x"]), arr(c["y"]), arr(c["q"])
    m, b = fl(c["m"]), fl(c["b"])

    def run():
        return (proc.interpolate(x, y, x, method=c["method"]), proc.interpolate(x, y, q, method=c["method"]),
                proc.interpolate(x, m * x + b, q, method=c["method"]))
    oc, o = guarded(run)
    e = dict(c)
    e.update(outcome=oc, at_nodes=vec(o[0]) if o else [], out=vec(o[1]) if o else [], aff_out=vec(o[2]) if o else [])
    return e


def ex_winterp(c):
    # optional history before the request: the Weaver is built on (x0, y0) and the `pre` operations are applied; the
    # judge gets the exact series after that history as (x, y)
    x, y = (arr(c["x0"]), arr(c["y0"])) if "x0" in c else (arr(c["x"]), arr(c["y"]))
    pre = c.get("pre", [])
    kw = {} if c.get("method", "linear") == "linear" and not c.get("explicit_method") else {"method": c.get("method", "linear")}
    def go(w, f):
        for op in pre:
            if op["k"] == "try":       # a request that is refused (or fails) and whose exception the caller catches: the object
                try:                   # must behave afterwards as if it had never been made (seed C13k: grid stored before the check)
                    wcall(w, op["op"])
                except Exception:  # noqa
                    pass
            else:
                wcall(w, op)
        return f(w)
    if c["mode"] == "n":
        woc, w, unch = wrun(x, y, lambda w: go(w, lambda w: w.interpolate(n=c["n"], **kw)))
    else:
        q = arr(c["q"], c.get("qcontainer", "array"))
        if c.get("also_n"):         # both arguments in one call: documented - n is ignored when a grid is given
            woc, w, unch = wrun(x, y, lambda w: go(w, lambda w: w.interpolate(n=c["also_n"], new_x=q, **kw)))
        else:
            woc, w, unch = wrun(x, y, lambda w: go(w, lambda w: w.interpolate(new_x=q, **kw)))
    if pre:
        unch = True          # the frame flag compares with the state before the history: not meaningful here
    e = {k: v for k, v in c.items() if k not in ("x0", "y0", "pre")}
    e.update(outcome=woc, w_unchanged=unch)
    e.update(wfields(w, woc, ref=False))
    return e


EXECUTORS.update({"repeat": ex_repeat, "repeat2": ex_repeat2, "truncate": ex_truncate, "slice_value": ex_slice_value,
                  "slice_index": ex_slice_index, "truncate_index": ex_truncate_index, "trend": ex_trend,
                  "linear_trend": ex_linear_trend, "normalize": ex_normalize, "shiftscale": ex_shiftscale,
                  "interp": ex_interp, "interp_env": ex_interp_env, "winterp": ex_winterp})


# ---------------------------------------------------------------------------------------------- C04-C07 recreate from average
import struct  # noqa: E402
import traffic_weaver.rfa as rfa_mod  # noqa: E402

RFA_CLASSES = {"PiecewiseConstant": "PiecewiseConstantRFA", "LinearFixed": "LinearFixedRFA", "LinearAdaptive": "LinearAdaptiveRFA",
               "ExpFixed": "ExpFixedRFA", "ExpAdaptive": "ExpAdaptiveRFA", "CubicSpline": "CubicSplineRFA"}


def bits3(v):
    b = struct.unpack("<Q", struct.pack("<d", float(v)))[0]
    return [b >> 44, (b >> 22) & 0x3FFFFF, b & 0x3FFFFF]


def rfa_kwargs(c):
    s = c["strategy"]
    kw = {}
    if c.get("defaults"):           # every optional parameter left at its documented default (the case carries those values)
        return kw
    if s in ("LinearFixed", "LinearAdaptive", "ExpFixed", "ExpAdaptive"):
        if c["a"] != -1:
            kw["a"] = c["a"]
        else:
            kw["alpha"] = fl(c["alpha"])
    if s in ("ExpFixed", "ExpAdaptive"):
        kw["beta"] = fl(c["beta"])
        kw["exp"] = c["exp_f"] if "exp_f" in c else fl(c["exp"])
    if s in ("LinearAdaptive", "ExpAdaptive"):
        kw["adaptive_smooth"] = c["smooth_f"] if "smooth_f" in c else c["smooth"]
    return kw


def _sampler(kind):
    """User-supplied sampling functions f(float) -> float for FunctionRFA (legal per its documentation)."""
    import math
    if kind == "FunctionConst":          # accepts an array without raising, returns a scalar for it
        return lambda x, y: (lambda v: float(np.mean(y)))
    if kind == "FunctionInterp":         # vectorisable
        return lambda x, y: (lambda v: np.interp(v, x, y))
    if kind == "FunctionScalar":         # scalar-only (math functions raise on arrays)
        return lambda x, y: (lambda v: math.sin(float(v)) + float(y[0]))
    if kind == "FunctionNorm":           # reduction-based: a scalar for array input as well
        return lambda x, y: (lambda v: float(np.linalg.norm(np.atleast_1d(v) - x[0])) if np.ndim(v) == 0 else np.linalg.norm(v - x[0]))
    raise KeyError(kind)


def rfa_run(c, x, y):
    if c["strategy"] == "FunctionSubclass":       # the other documented way: override _get_sampling_function, no supplier argument
        class _Sub(rfa_mod.FunctionRFA):
            def _get_sampling_function(self):
                return lambda v: np.interp(v, self.x, self.y)
        obj = _Sub(x, y, c["n"])
        xs, ys = obj.rfa()
        return xs, ys, [], []
    if c["strategy"].startswith("Function"):
        obj = rfa_mod.FunctionRFA(x, y, c["n"], sampling_function_supplier=_sampler(c["strategy"]))
        xs, ys = obj.rfa()
        return xs, ys, [], []
    cls = getattr(rfa_mod, RFA_CLASSES[c["strategy"]])
    kw = rfa_kwargs(c)
    nn = {"np": np.int64(c["n"]), "np32": np.int32(c["n"]), "float": float(c["n"])}.get(c.get("n_kind"), c["n"])     # how the factor is typed
    obj = cls(x, y, nn, **kw)
    seen = set()
    if "exp" in kw:      # observe the exponent reaching the shape functions (module-level names rebound from outside)
        saved = (rfa_mod.lin_exp_xy_fit, rfa_mod.exp_lin_fit)

        def wrap(f):
            def g(*a, **k):
                seen.add(tuple(bits3(k.get("alpha", a[3] if len(a) > 3 else 2))))
                return f(*a, **k)
            return g
        rfa_mod.lin_exp_xy_fit, rfa_mod.exp_lin_fit = wrap(saved[0]), wrap(saved[1])
        try:
            xs, ys = obj.rfa()
        finally:
            rfa_mod.lin_exp_xy_fit, rfa_mod.exp_lin_fit = saved
        c["_fit_exps"] = sorted(list(t) for t in seen)
        c["_exp_bits"] = bits3(kw["exp"])
    else:
        xs, ys = obj.rfa()
    als, ars = [], []
    if c["strategy"] in ("LinearAdaptive", "ExpAdaptive"):
        xi = IntervalArray(sau.oversample_linspace(np.asarray(x, dtype=float), c["n"]), c["n"])
        yi = IntervalArray(sau.oversample_piecewise_constant(np.asarray(y, dtype=float), c["n"]), c["n"])
        xi.extend_linspace(direction="both")
        yi.extend_constant(direction="both")
        als, ars, _ = rfa_mod.LinearAdaptiveRFA.get_adaptive_transition_points(xi, yi, obj.a, obj.adaptive_smooth)
        als, ars = [int(v) for v in als], [int(v) for v in ars]
    return xs, ys, als, ars


def ex_rfa(c):
    x, y = arr(c["x"], c.get("container", "array")), arr(c["y"], c.get("container", "array"))
    c = dict(c)
    # optional exact translation of the values (a level far above the jumps): recreation commutes with y -> y + L (C07), the
    # window sizes depend on ratios of jumps only; L = sign * 2**power is added to the input and taken off the output
    L = c["yoff"][0] * 2.0 ** c["yoff"][1] if c.get("yoff") else 0.0
    if L:
        y = [v + L for v in y] if isinstance(y, list) else y + (int(L) if y.dtype.kind in "iu" else L)
    oc, o = guarded(lambda: rfa_run(c, x, y))
    if L and oc == "ok":
        o = (o[0], (o[1] - L) if isinstance(o[1], np.ndarray) and o[1].ndim == 1 else o[1]) + tuple(o[2:])
    e = dict(c)
    e["fit_exps"] = e.pop("_fit_exps", [])
    e["exp_bits"] = e.pop("_exp_bits", [0, 0, 0])
    if oc == "ok":
        xs, ys, als, ars = o
        kx, ky = kind(xs), kind(ys)
        xv = np.asarray(xs, dtype=float).ravel() if kx.startswith("ndarray") or kx == "list" else np.array([])
        e.update(outcome="ok", kind=kx if kx == ky else kx + "/" + ky, outx=vec(xs), outy=vec(ys), als=als, ars=ars,
                 xbits=[bits3(v) for v in np.asarray(x, dtype=float)],
                 nthbits=[bits3(v) for v in (xv[::c["n"]] if len(xv) else [])])
    else:
        e.update(outcome=oc, kind="none", outx=[], outy=[], als=[], ars=[], xbits=[], nthbits=[])
    return e


def ex_rfa_reject(c):
    x, y = arr(c["x"]), arr(c["y"])
    cls = getattr(rfa_mod, RFA_CLASSES[c["strategy"]])
    oc, _ = guarded(lambda: cls(x, y, c["n_f"] if "n_f" in c else c["n"]).rfa())
    e = dict(c)
    e["outcome"] = oc
    return e


import traffic_weaver.funfit as ff  # noqa: E402

FIT_NAMES = ["lin", "exp", "exp_xy", "exp_lin", "lin_exp_xy"]


def ex_funfit(c):
    x0, x1, x, y0, y1 = (fl(c[k]) for k in ("x0", "x1", "x", "y0", "y1"))
    ex = c["e_f"] if "e_f" in c else fl(c["e"])

    def at(xv):
        r = {}
        for name in FIT_NAMES:
            f = getattr(ff, name + "_fit")
            r[name] = fx(f(xv, (x0, y0), (x1, y1)) if name == "lin" else f(xv, (x0, y0), (x1, y1), ex))
        return r
    oc, o = guarded(lambda: (at(x0), at(x), at(x1)))
    e = dict(c)
    z = {n: [5, 0, 0] for n in FIT_NAMES}
    e.update(outcome=oc, at0=o[0] if o else z, at=o[1] if o else z, at1=o[2] if o else z)
    return e


EXECUTORS.update({"rfa": ex_rfa, "rfa_reject": ex_rfa_reject, "funfit": ex_funfit})


# ---------------------------------------------------------------------------------------------- C07 relations between runs
from fractions import Fraction as _Fr  # noqa: E402


def _fr(r):
    return _Fr(r[0], r[1])


def ex_rfa_rel(c):
    X = [_fr(r) for r in c["x"]]
    Y = [_fr(r) for r in c["y"]]
    base = {k: c[k] for k in ("strategy", "n", "a", "alpha", "beta", "exp", "smooth") if k in c}
    for k in ("exp_f", "smooth_f"):
        if k in c:
            base[k] = c[k]

    def run(xs, ys):
        xa = np.array([float(v) for v in xs])
        ya = np.array([float(v) for v in ys])
        o = rfa_run(dict(base), xa, ya)
        return {"outx": vec(o[0]), "outy": vec(o[1])}

    def go():
        rel = c["rel"]
        if rel == "affine":
            ay, by, cx, dx = (_fr(r) for r in c["maps"])
            return [run(X, Y), run([cx * v + dx for v in X], [ay * v + by for v in Y])]
        if rel == "affine_exact":
            ay, by, cx, dx = (float(_fr(r)) for r in c["maps"])
            if "dx_big" in c:          # a time shift beyond what the judge's integers hold: sign * 2**power, still exact in binary64
                dx += c["dx_big"][0] * 2.0 ** c["dx_big"][1]
            xa = np.array([float(v) for v in X])
            ya = np.array([float(v) for v in Y])
            o = rfa_run(dict(base), xa * cx + dx, ya * ay + by)
            back = {"outx": vec((np.asarray(o[0], dtype=float) - dx) / cx), "outy": vec((np.asarray(o[1], dtype=float) - by) / ay)}
            return [run(X, Y), back]
        if rel == "local":
            y2 = list(Y)
            y2[c["j"]] += _fr(c["delta"])
            return [run(X, Y), run(X, y2)]
        if rel == "linear":
            y2 = [_fr(r) for r in c["y2"]]
            return [run(X, Y), run(X, y2), run(X, [a + b for a, b in zip(Y, y2)])]
        if rel == "weights":
            m = len(Y)
            return [run(X, [1 if i == j else 0 for i in range(m)]) for j in range(m)]
        raise ValueError(rel)
    oc, o = guarded(go)
    e = {k: v for k, v in c.items() if k not in ("exp_f", "smooth_f")}
    e.update(outcome=oc, runs=o if o else [])
    return e


EXECUTORS.update({"rfa_rel": ex_rfa_rel})


# ---------------------------------------------------------------------------------------------- C01 / C03 integral matching
import traffic_weaver.match as match_mod  # noqa: E402


def match_call(c, x, y):
    kw = dict(fixed_points_finding_strategy=c["strategy"], target_function_integral_method=c["trule"],
              reference_function_integral_method=c["rrule"], alpha=c["alpha_f"] if "alpha_f" in c else fl(c["alpha"]))
    if (c["strategy"], c["trule"], c["rrule"], c["alpha"]) == ("closest", "trapezoid", "rectangle", [1, 1]) and "alpha_f" not in c \
            and len(c["x"]) % 2 == 0:
        kw = {}                              # the documented defaults of all four left implicit
    off = xoff(c)
    if c["mode"] == "positions":
        kw["fixed_points_in_x"] = [fl(r) + off for r in c["given"]]
    elif c["mode"] == "indices":
        kw["fixed_points_indices_in_x"] = list(c["given"])
        if c.get("decoy"):            # positions handed over as well: documented - they are set according to the indices
            kw["fixed_points_in_x"] = [fl(r) + off for r in c["decoy"]]
    L = c["yoff"][0] * 2.0 ** c["yoff"][1] if c.get("yoff") else 0.0      # exact translation of the values, reference included
    return match_mod.integral_matching_reference_stretch(x, y, xarr(c["xref"], "array", off), arr(c["yref"]) + L, **kw)


def ex_match(c):
    x, y = xarr(c["x"], c.get("container", "array"), xoff(c)), arr(c["y"], c.get("ycontainer", c.get("container", "array")))
    y0 = np.array(y, dtype=float, copy=True)
    L = c["yoff"][0] * 2.0 ** c["yoff"][1] if c.get("yoff") else 0.0
    if L:
        y = [v + L for v in y] if isinstance(y, list) else y + (int(L) if y.dtype.kind in "iu" else L)
    oc, o = guarded(lambda: match_call(c, x, y))
    oc2, o2 = guarded(lambda: match_call(c, x, o)) if oc == "ok" else ("skipped", None)
    if L:
        o = np.asarray(o, dtype=float) - L if oc == "ok" else o
        o2 = np.asarray(o2, dtype=float) - L if oc2 == "ok" else o2
    e = {k: v for k, v in c.items() if k not in ("alpha_f", "bounded")}
    small = False
    if oc == "ok":
        try:
            oa = np.asarray(o, dtype=float)
            small = bool(c.get("bounded", False) and oa.shape == y0.shape and np.all(np.isfinite(oa)) and np.max(np.abs(oa)) < 100
                         and np.max(np.abs(y0)) < 100 and np.max(np.abs(oa - y0)) < 10)
        except Exception:
            small = False
    e.update(outcome=oc, out=vec(o) if oc == "ok" else [], out2=vec(o2) if oc2 == "ok" else [], wout=[], small=small)
    return e


EXECUTORS.update({"match": ex_match})


def ex_stretch_private(c):
    """Beyond the listed properties: the two private kernels of match.py called directly, with the defaults of their
    optional arguments (x omitted -> evenly spaced dx apart, integral values omitted -> zeros, window indices omitted ->
    evenly spaced)."""
    import traffic_weaver.match as match_mod
    y = arr(c["y"], c.get("ycontainer", "array"))
    x = None if c["xnone"] else arr(c["x"])
    kw = {"alpha": fl(c["alpha"]), "integral_method": c["rule"]}
    if c["xnone"]:
        kw["dx"] = fl(c["dx"])

    def go():
        if c["kind"] == "window":
            if c.get("target_default"):          # the documented default target is 0
                return match_mod._integral_matching_stretch(x, y, **kw)
            return match_mod._integral_matching_stretch(x, y, integral_value=fl(c["target"]), **kw)
        if not c["valsnone"]:
            kw["integral_values"] = [fl(v) for v in c["values"]]
        if not c["fpinone"]:
            kw["fixed_points_indices_in_x"] = list(c["fpi"])
        return match_mod._interval_integral_matching_stretch(x, y, **kw)
    oc, o = guarded(go)
    e = dict(c)
    e.update(outcome=oc, out=vec(o) if oc == "ok" else [])
    return e


EXECUTORS.update({"stretch_private": ex_stretch_private})


# ---------------------------------------------------------------------------------------------- C02 recreate + match pipeline
import math  # noqa: E402


def pipeline_run(c, x, y):
    w = Weaver(x, y)
    if c["append"] != "none":
        w.append_one_sample(make_periodic=(c["append"] == "periodic"))
    cls = getattr(rfa_mod, RFA_CLASSES[c["strategy"]])
    w.recreate_from_average(c["n"], rfa_class=cls, **rfa_kwargs(c))
    kw = {"target_function_integral_method": c["trule"]}
    if "malpha_f" in c or "malpha" in c:
        kw["alpha"] = c["malpha_f"] if "malpha_f" in c else fl(c["malpha"])
    if c["n"] % 2:          # the documented positional form: the first parameter is the rule of the TARGET function (seed C02j)
        w.integral_match(kw.pop("target_function_integral_method"), **kw)
    else:
        w.integral_match(**kw)
    return w


def ex_pipeline(c):
    if "dataset" in c:
        from traffic_weaver.datasets import load_dataset
        xy = load_dataset(c["dataset"])
        step = c.get("stride", 1)
        x, y = np.array(xy[::step, 0]), np.array(xy[::step, 1])
    else:
        x, y = arr(c["x"], c.get("container", "array")), arr(c["y"], c.get("container", "array"))
    x0, y0 = np.array(x, dtype=float, copy=True), np.array(y, dtype=float, copy=True)
    # optional exact translation of the values (a level far above the variation, e.g. byte counters): the pipeline commutes
    # with y -> y + L (C07), L = sign * 2**power is added to the input and taken off again before recording
    L = c["yoff"][0] * 2.0 ** c["yoff"][1] if c.get("yoff") else 0.0
    if L:
        y = [v + L for v in y] if isinstance(y, list) else y + (int(L) if y.dtype.kind in "iu" else L)
    if c["append"] != "none":       # the documented reference: the original plus the appended sample (computed here, not read back)
        x0 = np.append(x0, 2 * x0[-1] - x0[-2])
        y0 = np.append(y0, y0[0] if c["append"] == "periodic" else y0[-1])
    oc, w = guarded(lambda: pipeline_run(c, x, y))
    e = {k: v for k, v in c.items() if k not in ("exp_f", "smooth_f", "malpha_f", "x", "y")}
    e.update(m=len(x0), refxbits=[bits3(v) for v in x0])
    if oc != "ok":
        e.update(outcome=oc, kind="none", yf=[], out=[], nthbits=[], avgxbits=[], avgy=[])
        return e
    gx, gy = w.get()
    kx, ky = kind(gx), kind(gy)
    try:
        ga = np.asarray(gy, dtype=float) - L
        mx = max(float(np.max(np.abs(y0))), float(np.max(np.abs(ga)))) if ga.ndim == 1 and np.all(np.isfinite(ga)) else 1.0
    except Exception:
        ga, mx = np.array([]), 1.0
    p = 0 if mx == 0 else 1 - int(math.floor(math.log10(mx)))     # scaled magnitudes in [10, 100)
    sc = 10.0 ** p
    aoc, av = guarded(lambda: proc.average(np.asarray(gx, dtype=float), np.asarray(gy, dtype=float), c["n"]))
    gxa = np.asarray(gx, dtype=float).ravel()
    e.update(outcome="ok", kind=kx if kx == ky else kx + "/" + ky, yf=fxs(y0 * sc), out=vec(ga * sc) if ga.ndim == 1 else [[5, 0, 0]],
             nthbits=[bits3(v) for v in gxa[::c["n"]]], scale_pow10=p,
             avgxbits=[bits3(v) for v in av[0]] if aoc == "ok" else [], avgy=fxs((np.asarray(av[1]) - L) * sc) if aoc == "ok" else [])
    if (c.get("wide") or c.get("rel")) and c["trule"] == "rectangle" and ga.ndim == 1 and len(ga) == (len(y0) - 1) * c["n"] + 1 and np.all(y0[:-1] != 0):
        # wide dynamic range: every interval's samples relative to that interval's own original average (see JPipeline)
        e["norm"] = [fxs(ga[k * c["n"]:(k + 1) * c["n"]] / y0[k]) for k in range(len(y0) - 1)]
    return e


EXECUTORS.update({"pipeline": ex_pipeline})


# ---------------------------------------------------------------------------------------------- Weaver histories (C08, C09, C20)
DOMAIN_OPS = {"append", "shift_x", "shift_y", "scale_x", "scale_y", "normalize_x", "normalize_y", "repeat", "truncate_value", "truncate_index"}


def _stopv(v):
    return None if v == NONEINT else v


_GRIDS = []       # caller-owned grids handed to interpolate during the current history


def wcall(w, op):
    """Perform one operation record on a real Weaver (public API only)."""
    k = op["k"]
    if k == "append":
        return w.append_one_sample(make_periodic={"np": np.bool_(op["periodic"]), "int": int(op["periodic"])}.get(op.get("pflag"), op["periodic"]))
    if k in ("shift_x", "shift_y", "scale_x", "scale_y"):
        v = fl(op["v"])
        return getattr(w, k)(int(v) if op.get("as_int") and v == int(v) else v)
    if k in ("normalize_x", "normalize_y"):
        return getattr(w, k)(fl(op["lo"]), fl(op["hi"]))
    if k == "repeat":
        return w.repeat(op["r"])
    if k == "truncate_value":
        return w.truncate_by_value(fl(op["left"]), fl(op["right"]), x_left_as_ratio=op["lr"], x_right_as_ratio=op["rr"])
    if k == "truncate_index":
        return w.truncate_by_index(op["start"], _stopv(op["stop"]))
    if k == "restore_original":
        return w.restore_original()
    if k == "poke":                        # the caller writes into the array get() handed out
        g = w.get()
        g[1][op["i"]] += fl(op["d"])
        return None
    if k == "recreate":
        c = dict(op)
        cls = getattr(rfa_mod, RFA_CLASSES.get(op["strategy"], "FunctionRFA"))
        if op.get("defaults") and op["strategy"] == "ExpAdaptive":       # documented default strategy and parameters
            return w.recreate_from_average(op["n"])
        if op["strategy"].startswith("Function"):       # FunctionRFA with a user-supplied sampling function, through the Weaver
            return w.recreate_from_average(op["n"], rfa_class=rfa_mod.FunctionRFA, sampling_function_supplier=_sampler(op["strategy"]))
        return w.recreate_from_average(op["n_f"] if "n_f" in op else op["n"], rfa_class=cls, **rfa_kwargs(c))
    if k == "integral_match":
        kw = {"target_function_integral_method": op["trule"], "reference_function_integral_method": op["rrule"]}
        kw["alpha"] = op["alpha_f"] if "alpha_f" in op else fl(op["alpha"])
        if "fstrategy" in op:
            kw["fixed_points_finding_strategy"] = op["fstrategy"]
        if len(w.get()[0]) % 2:     # positional form (target rule first, reference rule second), keyword form otherwise
            return w.integral_match(kw.pop("target_function_integral_method"), kw.pop("reference_function_integral_method"), **kw)
        return w.integral_match(**kw)
    if k == "interpolate_none":
        return w.interpolate(method=op["method"])
    if k == "interpolate_n":
        return w.interpolate(n=op["n"], method=op["method"])
    if k == "interpolate_grid":
        q = arr(op["q"], op.get("qcontainer", "array"))
        if op.get("snap_ends"):      # the grid "shares both end points": take them from the object itself (bit-identical)
            cur = w.get()[0]
            q[0], q[-1] = float(cur[0]), float(cur[-1])
        _GRIDS.append(q)
        return w.interpolate(new_x=q, method=op["method"])
    if k == "trend":
        return w.trend(poly(op["c"]), normalized=op["normalized"])
    if k == "smooth":
        return w.smooth(op["s_f"])
    if k == "noise":
        np.random.seed(op.get("seed", 1))
        return w.noise(op["snr_f"], **({"snr_in_db": False} if op.get("linear") else {}))
    if k == "slice_index":
        return w.slice_by_index(op["start"], _stopv(op["stop"]), op.get("step", 1))
    if k == "slice_value":
        kw = {}
        if op["start"] != NONE:
            kw["start"] = fl(op["start"])
        if op["stop"] != NONE:
            kw["stop"] = fl(op["stop"])
        return w.slice_by_value(**kw)
    if k == "get":
        return (w.get(), w.get_reference(), w.get_original())
    if k == "to_function":
        return w.to_function()(np.asarray(w.get()[0], dtype=float))
    if k == "len":
        return len(w)
    if k == "to_2d_array":
        return w.to_2d_array()
    raise KeyError(k)


def fop(op, rx, ry):
    """F_op(previous reference): the standalone function applied to the previously recorded reference series."""
    k = op["k"]
    if k == "append":
        return sau.append_one_sample(rx, ry, make_periodic=op["periodic"])
    if k == "shift_x":
        return rx + fl(op["v"]), ry
    if k == "shift_y":
        return rx, ry + fl(op["v"])
    if k == "scale_x":
        return rx * fl(op["v"]), ry
    if k == "scale_y":
        return rx, ry * fl(op["v"])
    if k == "normalize_x":
        return proc.normalize(rx, fl(op["lo"]), fl(op["hi"])), ry
    if k == "normalize_y":
        return rx, proc.normalize(ry, fl(op["lo"]), fl(op["hi"]))
    if k == "repeat":
        return proc.repeat(rx, ry, op["r"])
    if k == "truncate_value":
        return proc.truncate(rx, ry, fl(op["left"]), fl(op["right"]), op["lr"], op["rr"])
    if k == "truncate_index":
        return rx[op["start"]:op["stop_resolved"]], ry[op["start"]:op["stop_resolved"]]
    return None


def wobs(w):
    """Observation of a Weaver through its public getters."""
    (x, y), (rx, ry), (ox, oy) = w.get(), w.get_reference(), w.get_original()
    ks = [kind(v) for v in (x, y, rx, ry, ox, oy)]
    good = all(k in ("ndarray1f", "ndarray1i") for k in ks)
    return {"x": vec(x), "y": vec(y), "rx": vec(rx), "ry": vec(ry), "ox": vec(ox), "oy": vec(oy),
            "kinds": "ok" if good else "/".join(ks)}


def ex_whist(c):
    st = c["start"]
    cx, cy = arr(st["x"], st.get("container", "array")), arr(st["y"], st.get("container", "array"))
    keep = [np.array(cx, copy=True) if isinstance(cx, np.ndarray) else list(cx), np.array(cy, copy=True) if isinstance(cy, np.ndarray) else list(cy)]
    extra_caller = []          # further caller-owned arrays (explicit grids)

    del _GRIDS[:]
    grid_snap = []

    def caller_state():
        def one(a):
            return (str(a.dtype), a.tobytes()) if isinstance(a, np.ndarray) else repr(a)
        return [one(cx), one(cy)] + [one(g) for g in _GRIDS]
    ctor = st.get("ctor", "plain")          # the factories must build the same object as Weaver(x, y)
    if ctor == "2d":
        xy = np.column_stack((np.asarray(cx, dtype=float), np.asarray(cy, dtype=float)))
        cx = cy = xy                        # the caller's buffer is the 2-D array
        w = Weaver.from_2d_array(xy)
    elif ctor == "csv":
        import tempfile
        with tempfile.NamedTemporaryFile("w", suffix=".csv", delete=False, dir=os.environ.get("TMPDIR", "/tmp")) as f:
            for a, b in zip(np.asarray(cx, dtype=float), np.asarray(cy, dtype=float)):
                f.write("%r,%r\n" % (float(a), float(b)))
        try:
            w = Weaver.from_csv(f.name)
        finally:
            os.unlink(f.name)
    elif ctor == "df":
        import pandas as pd
        df = pd.DataFrame({0: np.asarray(cx, dtype=float), 1: np.asarray(cy, dtype=float)})
        w = Weaver.from_dataframe(df)
    elif ctor == "df_named":                # named columns in another order, with an unrelated third column
        import pandas as pd
        df = pd.DataFrame({"other": np.arange(len(cy), dtype=float), "v": np.asarray(cy, dtype=float), "t": np.asarray(cx, dtype=float)})
        w = Weaver.from_dataframe(df, x_col="t", y_col="v")
    elif ctor == "df_swapped":              # positional labels given explicitly, y stored before x
        import pandas as pd
        df = pd.DataFrame({0: np.asarray(cy, dtype=float), 1: np.asarray(cx, dtype=float)})
        w = Weaver.from_dataframe(df, x_col=1, y_col=0)
    elif ctor == "none_x":                  # x omitted: abscissae 0, 1, 2, ...
        w = Weaver(None, cy)
    else:
        w = Weaver(cx, cy)
    e = {"fn": "whist", "start": {"x": st["x"], "y": st["y"]}, "init": wobs(w), "steps": []}
    for op in c["ops"]:
        before = snap(w)
        cbefore = caller_state()
        prev_ref = guarded(lambda: tuple(np.array(v, dtype=float, copy=True) for v in w.get_reference()))[1]
        o = {kk: vv for kk, vv in op.items() if kk not in ("n_f", "alpha_f", "exp_f", "smooth_f", "s_f", "snr_f", "seed", "as_int", "qcontainer", "linear", "snap_ends", "pflag")}
        if op["k"] == "truncate_index" and prev_ref is not None:
            op = dict(op, stop_resolved=(len(w.get()[0]) if op["stop"] == NONEINT else op["stop"]))
        if op["k"] == "interpolate_grid":
            pass
        oc, ret = guarded(lambda: wcall(w, op))
        after = snap(w)
        rv = []
        if oc == "ok" and op["k"] == "len":
            rv = [fx(ret)]
        elif oc == "ok" and op["k"] == "to_2d_array":
            rv = vec(np.asarray(ret, dtype=float).ravel()) if np.asarray(ret).ndim == 2 and np.asarray(ret).shape[1] == 2 else [[5, 0, 0]]
        elif oc == "ok" and op["k"] in ("slice_index", "slice_value"):
            rv = vec(ret[0]) + vec(ret[1])
        elif oc == "ok" and op["k"] == "to_function":
            rv = vec(ret)
        s = {"op": o, "outcome": oc, "ret": rv, "frame": after == before, "caller": caller_state()[:len(cbefore)] == cbefore, "orig_same": after[4:] == before[4:], "frx": [], "fry": []}
        obs = guarded(lambda: wobs(w))[1]
        if obs is None:
            obs = {"x": [], "y": [], "rx": [], "ry": [], "ox": [], "oy": [], "kinds": "unobservable"}
        s.update(obs)
        if oc == "ok" and op["k"] in DOMAIN_OPS and prev_ref is not None:
            foc, f = guarded(lambda: fop(op, prev_ref[0], prev_ref[1]))
            if foc == "ok" and f is not None:
                s["frx"], s["fry"] = vec(f[0]), vec(f[1])
        e["steps"].append(s)
    return e


def ex_wrestore(c):
    """Prefix program, restore_original, suffix program  versus  fresh Weaver(get_original()) + the same suffix."""
    st = c["start"]

    def run_suffix(w):
        out = []
        for op in c["suffix"]:
            oc, _ = guarded(lambda: wcall(w, op))
            o = guarded(lambda: wobs(w))[1] or {"x": [], "y": [], "rx": [], "ry": [], "ox": [], "oy": [], "kinds": "unobservable"}
            o["outcome"] = oc
            out.append(o)
        return out
    wa = Weaver(arr(st["x"]), arr(st["y"]))
    for op in c["prefix"]:
        guarded(lambda: wcall(wa, op))
    roc, _ = guarded(lambda: wa.restore_original())
    ox, oy = wa.get_original()
    wb = Weaver(np.array(ox, copy=True), np.array(oy, copy=True))
    a, b = run_suffix(wa), run_suffix(wb)
    return {"fn": "wrestore", "outcome": roc, "a": a, "b": b,
            "case": {"start": st, "prefix": c["prefix"], "suffix": c["suffix"]}}


EXECUTORS.update({"whist": ex_whist, "wrestore": ex_wrestore})


# ---------------------------------------------------------------------------------------------- C20 miscellaneous refusals
def ex_reject_misc(c):
    k = c["kind"]

    def go():
        if k == "len_mismatch":
            return Weaver(np.arange(c["m"], dtype=float), np.arange(c["m"] + c["d"], dtype=float))
        if k == "len_mismatch_list":
            return Weaver(list(range(c["m"])), list(range(c["m"] + c["d"])))
        if k == "bad_2d":
            return Weaver.from_2d_array(np.zeros(tuple(c["shape"])))
        if k == "unknown_dataset":
            from traffic_weaver.datasets import load_dataset
            return load_dataset(c["name"])
        if k == "unknown_strategy":
            # the searched array against: a value between its elements, the array itself, some of its elements, one element
            xs = np.arange(4.0) * (c.get("form", 0) % 3 + 1) - c.get("form", 0)
            lk = {0: np.array([1.5]), 1: xs.copy(), 2: xs[1:3].copy(), 3: xs[:1].copy(), 4: list(xs)}[c.get("form", 0) % 5]
            return sau.find_closest_element_indices_to_values(xs if c.get("form", 0) % 2 == 0 else list(xs), lk, strategy=c["name"])
        if k == "unknown_rule":
            return sau.integral(np.arange(4.0), np.arange(4.0), method=c["name"])
        if k == "unknown_method":
            return proc.interpolate(np.arange(5.0), np.arange(5.0), np.array([0.5, 1.5]), method=c["name"])
        if k == "no_sampler":        # beyond the listed properties: FunctionRFA without a sampling-function supplier
            r = rfa_mod.FunctionRFA(np.arange(c["m"], dtype=float), np.arange(c["m"], dtype=float) ** 2, 3)
            return r.rfa()
        raise KeyError(k)
    oc, o = guarded(go)
    e = dict(c)
    e["outcome"] = oc if oc != "ok" else "returned:" + type(o).__name__
    return e


EXECUTORS.update({"reject_misc": ex_reject_misc})


# ---------------------------------------------------------------------------------------------- C15 noise
def ex_noise(c):
    a = arr(c["a"], c.get("container", "array"))
    a0 = np.array(a, dtype=float, copy=True)
    draw = np.array([fl(r) for r in c["draw"]], dtype=float)
    calls = []

    def recorder(loc=0.0, scale=1.0, size=None):
        sc = np.atleast_1d(np.asarray(scale, dtype=float)).ravel()
        shape = (size,) if isinstance(size, int) else tuple(size) if size is not None else None
        calls.append({"loc": fx(loc), "scale": fxs(sc.tolist()), "shape_ok": bool(shape == a0.shape)})
        return draw.copy().reshape(a0.shape) if shape == a0.shape else np.zeros(shape if shape else ())

    kw = {}
    if c["mode"] == "std":
        kw = {"snr": None, "std": fl(c["std"])}
        if c["std"] == [1, 1] and len(c["a"]) % 2 == 0:          # documented default std left implicit
            del kw["std"]
    else:
        v = [fl(r) for r in c["snr"]]
        sc_ = c.get("snr_container")
        if sc_ in ("uint8", "uint16", "int64", "int8") and all(r[1] == 1 and np.iinfo(sc_).min <= r[0] <= np.iinfo(sc_).max for r in c["snr"]):
            iv = np.array([r[0] for r in c["snr"]], dtype=sc_)           # integer-typed snr (array, or a NumPy scalar)
            snr_arg = iv[0] if len(iv) == 1 else iv
        else:
            snr_arg = v[0] if len(v) == 1 else (v if sc_ == "list" else np.array(v))
        kw = {"snr": snr_arg, "snr_in_db": c["mode"] == "db"}
        if c["mode"] == "db" and len(c["a"]) % 2 == 0:           # decibel is the documented default scale
            del kw["snr_in_db"]
        if list(c["std"]) != [1, 1]:                              # a level and an explicit std in one call: the level decides
            kw["std"] = fl(c["std"])

    def call():
        if c["via"] == "weaver":
            x = np.arange(len(a0), dtype=float) * 0.5 + 3
            w = Weaver(x, a)
            xb = np.asarray(w.get()[0]).tobytes()
            k2 = dict(kw)
            snr = k2.pop("snr")
            w.noise(snr, **k2)
            return np.asarray(w.get()[1]), np.asarray(w.get()[0]).tobytes() == xb and len(w) == len(a0)
        return proc.noise_gauss(a, **kw), True

    saved = np.random.normal
    np.random.normal = recorder
    try:
        oc, o = guarded(call)
    finally:
        np.random.normal = saved
    # reproducibility with the real generator: same seed -> identical result
    def real(seed):
        np.random.seed(seed)
        return np.asarray(proc.noise_gauss(np.array(a0, copy=True), **kw))
    roc, r = guarded(lambda: (real(12345), real(12345), real(54321)))
    try:        # beyond the property: the caller's signal is not modified by the function-level call
        in_same = bool(np.array_equal(np.asarray(a, dtype=float), a0))
    except Exception:
        in_same = False
    e = dict(c)
    e.update(outcome=oc, calls=calls, out=vec(o[0]) if oc == "ok" else [], wx_same=bool(o[1]) if oc == "ok" else False, in_same=in_same,
             rep_same=bool(roc == "ok" and r[0].tobytes() == r[1].tobytes()), rep_differs=bool(roc == "ok" and r[0].tobytes() != r[2].tobytes()))
    return e


# ---------------------------------------------------------------------------------------------- C16 smoothing
def ex_smooth(c):
    import warnings as _w
    # (abscissae far from the origin relative to their spacing: every clause is evaluated on the values recorded for this run,
    #  nothing is compared with an untranslated run, so the translation need not be exact for FITPACK)
    x, y = xarr(c["x"], c.get("container", "array"), xoff(c)), arr(c["y"], c.get("container", "array"))
    s = c["s_f"]
    warned = [False]

    def fresh():
        """A Weaver brought into the state in which smoothing is requested: constructed, then the `pre` operations."""
        w = Weaver(np.array(x, copy=True), np.array(y, copy=True))
        for op in c.get("pre", []):
            wcall(w, op)
        return w
    w0 = fresh()
    x0, y0 = (np.array(v, dtype=float, copy=True) for v in w0.get())      # the input of the smoothing step

    def run():
        with _w.catch_warnings(record=True) as rec:
            _w.simplefilter("always")
            w = fresh()
            w.smooth(s)
            gx, gy = w.get()
            w2 = fresh()
            w2.smooth(None)
            w3 = fresh()
            w3.smooth(len(y0) * float(np.var(y0)))
            f = fresh().to_function()
            fv = np.asarray(f(x0), dtype=float)
            w5 = fresh()                      # requested, then again after steps that change x only
            w5.to_function()
            w5.shift_x(3.0)
            w5.scale_x(2.0)
            fv2 = np.asarray(w5.to_function()(np.asarray(w5.get()[0], dtype=float)), dtype=float)
            if fv2.shape == fv.shape and np.all(np.isfinite(fv2)):
                fv = np.where(np.abs(fv2 - y0) > np.abs(fv - y0), fv2, fv)      # record the worse of the two answers per sample
            fs = proc.spline_smooth(x0, y0, s)(x0)
            # FITPACK's non-convergence reports (RuntimeWarnings raised by scipy's splrep: "... smoothing spline with fp = s ...", "... maximal
            # number of iterations ...", "... storage space ...", "s too small"); NumPy's own arithmetic warnings (divide by zero, invalid value)
            # are NOT reports of the solver and do not discard a run (seed C16l: an infinite weight for a constant series)
            def fitpack_report(r):
                m_ = str(r.message).lower()
                return any(t in m_ for t in ("splrep", "fitpack", "s too small", "smoothing spline", "iterations", "storage space", "knots", "fp ="))
            warned[0] = any(fitpack_report(r) for r in rec)
        return np.asarray(gx), np.asarray(gy, dtype=float), np.asarray(w2.get()[1], dtype=float), np.asarray(w3.get()[1], dtype=float), fv, np.asarray(fs, dtype=float)
    try:
        gx, gy, gnone, gdef, fv, fs = run()
        oc = "ok"
    except Exception as ex:  # noqa
        oc = type(ex).__name__
    e = {k: v for k, v in c.items() if k not in ("s_f", "pre")}
    if oc != "ok":
        e.update(outcome=oc, n=len(y0), dev=[], s_scaled=-1, same_x=False, same_len=False, yf=[], out=[], out_none=[], out_default=[], fun0=[], direct=[], warned=False)
        return e
    scale = max(1.0, float(np.max(np.abs(y0))))
    d = gy - y0 if gy.shape == y0.shape else np.zeros_like(y0)
    if len(d) and not np.all(np.isfinite(d)):
        # a non-finite smoothed value is an unbounded deviation: recorded as one deviation that exceeds every representable condition
        dev, s_scaled = [40000] + [0] * (len(d) - 1), int(min(10 ** 9, np.ceil(s))) if np.isfinite(s) else 10 ** 9
    else:
        m = float(np.max(np.abs(d))) if len(d) else 0.0
        unit = (m / 1000.0) if m > 0 else 1.0
        dev = [int(round(v / unit)) for v in d]
        s_scaled = int(min(10 ** 9, np.ceil(s / (unit * unit)))) if np.isfinite(s / (unit * unit)) else 10 ** 9
    e.update(outcome="ok", n=len(y0), dev=dev, s_scaled=s_scaled, s_given=fx(s),
             # (x0 was converted to float for the comparison of values: an integer-typed x stays integer-typed, values equal)
             same_x=bool(gx.shape == x0.shape and np.array_equal(np.asarray(gx, dtype=float), x0)), same_len=bool(gy.shape == y0.shape),
             yf=fxs(y0.tolist()), out=vec(gy), out_none=vec(gnone), out_default=vec(gdef), fun0=vec(fv), direct=vec(fs), warned=bool(warned[0]))
    return e


EXECUTORS.update({"noise": ex_noise, "smooth": ex_smooth})


# ---------------------------------------------------------------------------------------------- C09 shape / aliasing abstraction
def shape_concretize(act, w, grids):
    """A concrete call satisfying the abstract label, chosen from the object's current state."""
    k = act["k"]
    x = np.asarray(w.get()[0], dtype=float)
    if k == "append":
        return lambda: w.append_one_sample(make_periodic=True)
    if k in ("shift_x", "shift_y"):
        return lambda: getattr(w, k)(1.5)
    if k in ("scale_x", "scale_y"):
        return lambda: getattr(w, k)(2.0)
    if k in ("normalize_x", "normalize_y"):
        return lambda: getattr(w, k)(-1.0, 3.0)
    if k == "repeat":
        return lambda: w.repeat(act["r"])
    if k == "truncate":
        if act["by"] == "index":
            return lambda: w.truncate_by_index(act["drop"], None)
        return lambda: w.truncate_by_value(float(x[act["drop"]]), float(x[-1]))
    if k == "restore_original":
        return lambda: w.restore_original()
    if k == "recreate":
        cls = {"window": rfa_mod.ExpAdaptiveRFA, "piecewise": rfa_mod.PiecewiseConstantRFA, "spline": rfa_mod.CubicSplineRFA}[act["strat"]]
        return lambda: w.recreate_from_average(act["n"], rfa_class=cls)
    if k == "integral_match":
        return lambda: w.integral_match()
    if k == "smooth":
        return lambda: w.smooth(0.5)
    if k == "noise":
        return lambda: w.noise(20.0)
    if k == "trend":
        return lambda: w.trend(lambda t: 0.5 * t + 1.0)
    if k == "read":
        return lambda: (w.get(), w.slice_by_index(1, 3), len(w), w.to_2d_array())
    if k == "interpolate_n":
        return lambda: w.interpolate(n=act["m"], method=act["method"])
    if k == "interpolate_grid":
        q = np.linspace(x[0], x[-1], act["m"])
        q[0], q[-1] = x[0], x[-1]
        g = q if act["grid"] == "array" else q.tolist()
        if act["grid"] == "array":
            grids.append(g)
        return lambda: w.interpolate(new_x=g)
    raise KeyError(k)


def ex_wshape(c):
    base_x = np.array([0.0, 1.0, 2.5, 3.0, 4.5, 6.0])
    base_y = np.array([1.0, 3.0, -2.0, 0.5, 0.5, 2.0])
    cx, cy = (base_x.copy(), base_y.copy()) if c["arr"] else (base_x.tolist(), base_y.tolist())
    grids = []
    w = Weaver(cx, cy)
    np.random.seed(7)

    def bufs():
        b = {"cx": cx, "cy": cy}
        if grids:
            b["grid"] = grids[-1]
        return b

    def digest(v):
        return v.tobytes() if isinstance(v, np.ndarray) else repr(v)
    steps = []
    for act in c["acts"]:
        f = guarded(lambda: shape_concretize(act, w, grids))[1]
        before = {k: digest(v) for k, v in bufs().items()}
        oc, _ = guarded(f) if f else ("unconcretizable", None)
        after = bufs()
        wrote = sorted(k for k in before if digest(after[k]) != before[k])
        o = guarded(lambda: wobs(w))[1]
        gx, gy = w.get()
        def shared(a):
            return sorted(k for k, v in after.items() if isinstance(v, np.ndarray) and isinstance(a, np.ndarray) and np.shares_memory(a, v))
        steps.append({"act": act, "outcome": oc, "n": len(gx) if hasattr(gx, "__len__") else -1, "r": len(w.get_reference()[0]), "o": len(w.get_original()[0]),
                      "sx": shared(gx), "sy": shared(gy), "wrote": wrote, "kinds": o["kinds"] if o else "unobservable"})
    return {"fn": "wshape", "arr": c["arr"], "steps": steps, "meta": {"case": c}}


EXECUTORS.update({"wshape": ex_wshape})


# ---------------------------------------------------------------------------------------------- data home (DataHome.tla)
def ex_home(c):
    """One program over get_data_home / clear_data_home / a remote load / the environment variable, replayed in a scratch
    HOME; after every call: the directory returned (as a symbol), which symbolic directories exist, which hold the cache
    file, whether the call downloaded, and whether anything else appeared under the scratch root."""
    import shutil
    import tempfile
    import traffic_weaver.datasets._base as base
    from vlib import VERIF
    root = tempfile.mkdtemp(prefix="home-", dir=os.path.join(VERIF, ".scratch"))
    home = os.path.join(root, "h")
    os.makedirs(home)
    # how the variable names its directory: an absolute path, a path starting with "~" (expanded against HOME), or a path
    # relative to the working directory (which is the scratch root)
    envform = c.get("envform", "abs")
    envval = {"abs": os.path.join(root, "e", "envdir"), "tilde": os.path.join("~", "envdir_t"), "rel": os.path.join("relenv", "envdir")}[envform]
    envreal = {"abs": os.path.join(root, "e", "envdir"), "tilde": os.path.join(home, "envdir_t"), "rel": os.path.join(root, "relenv", "envdir")}[envform]
    sym = {"default": os.path.join(home, ".traffic-weaver-data"), "env": envreal,
           "arg": os.path.join(root, "a", "argdir"), "tilde": os.path.join(home, "tildedir")}
    given = {"none": None, "arg": sym["arg"], "tilde": os.path.join("~", "tildedir")}
    os.makedirs(os.path.join(root, "e"))
    os.makedirs(os.path.join(root, "a"))
    baseline = {"h", "e", "a", "relenv"}
    saved_env = {k: os.environ.get(k) for k in ("HOME", "TRAFFIC_WEAVER_DATA")}
    saved = (base.urlretrieve, base._sha256)
    downloads = []

    def urlretrieve(url, filename=None, *a, **k):
        downloads.append(url)
        with open(filename, "w") as f:
            f.write("0,1.5\n1,2.5\n2,0.25\n")
        return filename, None
    remote = base.RemoteFileMetadata(filename="payload.csv", url="https://example.invalid/payload.csv", checksum="00")
    os.environ["HOME"] = home
    cwd0 = os.getcwd()
    os.chdir(root)                     # a path that is not expanded ("~" taken literally) lands in the scratch root
    if c["envset"]:
        os.environ["TRAFFIC_WEAVER_DATA"] = envval
    else:
        os.environ.pop("TRAFFIC_WEAVER_DATA", None)
    base.urlretrieve, base._sha256 = urlretrieve, (lambda p: "00")
    steps = []
    try:
        for a in c["acts"]:
            k = a["k"]
            n0 = len(downloads)

            def go():
                if k == "setenv":
                    os.environ["TRAFFIC_WEAVER_DATA"] = envval
                    return None
                if k == "unsetenv":
                    os.environ.pop("TRAFFIC_WEAVER_DATA", None)
                    return None
                if k == "get":
                    return base.get_data_home(given[a["arg"]])
                if k == "clear":
                    return base.clear_data_home(given[a["arg"]])
                if k == "fetch":
                    d = base.load_csv_dataset_from_remote(remote, "set.pkl", "fold", data_home=given[a["arg"]], delay=0.0)
                    return ("data", np.asarray(d).shape == (3, 2))
                raise KeyError(k)
            oc, o = guarded(go)
            ret = ""
            if k == "get" and oc == "ok":
                ret = next((s for s, p in sym.items() if isinstance(o, str) and os.path.realpath(o) == os.path.realpath(p)), "other")
            elif k == "fetch" and oc == "ok":
                ret = "data" if o == ("data", True) else "other"
            other = sorted(set(os.listdir(root)) - baseline) + sorted(set(os.listdir(home)) - {".traffic-weaver-data", "tildedir", "envdir_t"}) \
                + sorted(set(os.listdir(os.path.join(root, "e"))) - {"envdir"}) + sorted(set(os.listdir(os.path.join(root, "a"))) - {"argdir"}) \
                + (sorted(set(os.listdir(os.path.join(root, "relenv"))) - {"envdir"}) if os.path.isdir(os.path.join(root, "relenv")) else [])
            if envform != "tilde" and os.path.exists(os.path.join(home, "envdir_t")):
                other.append("envdir_t")
            if envform != "rel" and os.path.exists(os.path.join(root, "relenv")):
                other.append("relenv")
            steps.append({"act": a, "outcome": oc, "ret": ret, "dl": len(downloads) - n0,
                          "exists": sorted(s for s, p in sym.items() if os.path.isdir(p)),
                          "cached": sorted(s for s, p in sym.items() if os.path.isfile(os.path.join(p, "fold", "set.pkl"))),
                          "elsewhere": other})
    finally:
        base.urlretrieve, base._sha256 = saved
        os.chdir(cwd0)
        for k2, v in saved_env.items():
            if v is None:
                os.environ.pop(k2, None)
            else:
                os.environ[k2] = v
        shutil.rmtree(root, ignore_errors=True)
    e = dict(c)
    e["steps"] = steps
    return e


EXECUTORS.update({"home": ex_home})
