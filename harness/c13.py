"""C13 - interpolation honours the data and the requested grid."""
from fractions import Fraction

from driver import main
from procfam import run_family, R, rseries


def env_cases(json_lines, rng, thorough):
    """cubic / spline are environment steps for the specification: constrained, not recomputed."""
    out = []
    seen = set()
    for j in json_lines:
        if j["op"]["k"] != "interp" or len(j["x2"]) < 4:
            continue
        key = (tuple(j["x2"]), tuple(j["y"]), tuple(j["op"]["q2"]))
        if key in seen:
            continue
        seen.add(key)
        X = [R(Fraction(v, 2)) for v in j["x2"]]
        for method in ("cubic", "spline"):
            out.append({"fn": "interp_env", "method": method, "x": X, "y": [R(v) for v in j["y"]],
                        "q": [R(Fraction(v, 2)) for v in j["op"]["q2"]], "m": R(Fraction(3, 2)), "b": R(-2)})
    for _ in range(3000 if thorough else 300):
        xs, ys = rseries(rng, 4, 40)
        span = xs[-1] - xs[0]
        q = sorted(xs[0] + span * Fraction(rng.randint(-2, 18), 16) for _ in range(rng.randint(1, 10)))
        out.append({"fn": "interp_env", "method": rng.choice(["cubic", "spline"]), "x": [R(v) for v in xs], "y": [R(v) for v in ys],
                    "q": [R(v) for v in q], "m": R(Fraction(rng.randint(-16, 16), 4)), "b": R(Fraction(rng.randint(-40, 40), 4))})
    return out


main(lambda: run_family(
    "C13", "interp",
    "every lattice series x every 3-point grid a, a+d, a+2d (a on the half-integer lattice around the data, d in {0,1/2,3/2}) "
    "and the original abscissae, with and without an explicit left value; Weaver.interpolate(n) for n in 2..6 and explicit "
    "grids with equal / different end points (list and array) - emitted by TLC; 'constant' and 'linear' are compared with the "
    "exact model; 'cubic' and 'spline' are environment steps judged by the property's clauses (values at the nodes, affine "
    "data reproduced inside the data range, length, finiteness); unknown method must be refused; plus seeded random dyadic "
    "series of 2..40 points; non-trivial = >= 4 points; distinct by input",
    [("interp", "c_out", "C13.constant"), ("interp", "l_out", "C13.linear"), ("interp_env", "at_nodes", "C13.nodes"),
     ("winterp", "wx", "C13.weaver")],
    nontrivial=lambda e: len(e["x"]) >= 4, extra=env_cases))
