"""C08 - reference series tracks domain transformations through any history."""
import copy
import json

from driver import Check, main
from fnexec import execute
from weaverfam import maximal_histories, from_emission, random_history


def run():
    c = Check("C08")
    r = c.model("MC_Weaver", "MC_Weaver_%s.cfg" % c.tier, timeout=3400, emits_all=False)
    hs = maximal_histories(r.json_lines)
    cases = [from_emission(j) for j in hs]
    lattice = len(cases)
    # long histories (up to 8 operations + continuation) from TLC's simulation mode, kept inside 32-bit rationals by a state constraint
    rs = c.model("MC_Weaver", "MC_Weaver_sim.cfg", workers=8, simulate="num=%d" % (400 if c.thorough else 40), depth=12, emits_all=False)
    sims = [from_emission(j) for j in maximal_histories(rs.json_lines)]
    cases += sims
    for i in range(6000 if c.thorough else 800):
        cases.append(random_history(c.rng, maxlen=8, with_rejects=False))
    # whole-API programs: reshaping operations (trend, smooth, noise, interpolate, recreate, match, writes through get()) mixed
    # with the domain operations - "reshaping operations never alter the reference" needs them on unreshaped series too
    from weaverfam import random_program
    for i in range(3000 if c.thorough else 500):
        cases.append(random_program(c.rng, maxops=6))
    if c.replay_path:
        cases = [json.load(open(c.replay_path))["event"]["meta"]["case"]]
    evs = c.run_cases(cases, execute)
    for e, k in zip(evs, cases):
        e["meta"] = {"case": k}
        if len(k["ops"]) >= 2:
            c.count_nontrivial(json.dumps(k, sort_keys=True))
    if not c.replay_path:
        def neg(pred, mut, prefix):
            c.negative_from(evs, pred, mut, prefix)
        def bump_ref(e):
            f = e["steps"][0]["rx"][0]
            e["steps"][0]["rx"][0] = [f[0] if f[0] else 1, f[1] + 11, f[2]]
        first = lambda e, kinds: e["steps"] and e["steps"][0]["op"]["k"] in kinds and e["steps"][0]["outcome"] == "ok"
        neg(lambda e: first(e, ("shift_x", "scale_x", "repeat", "append")), bump_ref, "C08.working_is_reference")
        neg(lambda e: first(e, ("shift_x", "scale_x", "repeat", "append")), lambda e: e["steps"][0].__setitem__("frx", list(reversed(e["steps"][0]["frx"]))), "C08.reference_tracks")
        neg(lambda e: any(s["op"]["k"] == "recreate" and s["outcome"] == "ok" for s in e["steps"]) and e["steps"][0]["op"]["k"] == "recreate",
            bump_ref, "C08.reshape_keeps_reference")
    c.rule = ("lattice (MC_Weaver): from two start series every sequence of up to Depth operations over an alphabet of 26 concrete domain "
              "operations / refusals / restore, followed where the series is short by recreate (3 strategies x n in {2,3}) and "
              "integral_match (2 rules) - invariants P08 (working = reference while unreshaped), frames as an action property, P02 on "
              "the transformed averages; every maximal history replayed into a real Weaver with the state observed after every call; "
              "harness-originated: seeded random histories of 0..8 domain operations with admissible arguments on random series (array / "
              "list / int containers) + continuation. P08 clauses are judged on the recorded series only (reference' = F_op(reference) "
              "with the standalone function applied to the previously recorded reference). non-trivial = >= 2 operations; distinct by case")
    c.coverage_extra = {"simulated_long_histories_from_tlc": len(sims), "lattice_histories_from_tlc": lattice, "emitted_states": len(r.json_lines), "random_histories_and_programs": len(cases) - lattice - len(sims),
                        "steps_observed": sum(len(e["steps"]) for e in evs)}
    c.assumptions = ["TLC 1.8, CommunityModules Json/IOUtils", "state projected through get(), get_reference(), get_original() after every call",
                     "once a recorded state drifts from the specification's state the rest of that history is not judged"]
    return c.finish(exhaustive=False)


main(run)
