"""C06 - transitions follow the documented geometry and shape functions."""
from fractions import Fraction

from driver import main
from rfafam import run_rfa_check, random_rfa_case, WINDOW, R, bump


def extra(c):
    rng = c.rng
    out = []
    r = c.model("MC_FunFit", "MC_FunFit_%s.cfg" % c.tier)
    for j in r.json_lines:
        out.append({"fn": "funfit", "x0": R(j["x0"]), "x1": R(j["x1"]), "x": R(j["x"]), "y0": R(j["y0"]), "y1": R(j["y1"]),
                    "e": j["e"], "exact": True, "defined": sorted(j["defined"])})
    for _ in range(6000 if c.thorough else 800):      # real exponents in (0,5]: end points and blend identities
        x0 = Fraction(rng.randint(-40, 40), 4)
        w = Fraction(rng.randint(1, 40), 4)
        t = Fraction(rng.randint(0, 16), 16)
        ef = rng.uniform(0.01, 5.0)
        out.append({"fn": "funfit", "x0": R(x0), "x1": R(x0 + w), "x": R(x0 + w * t), "y0": R(Fraction(rng.randint(-24, 24), 8)),
                    "y1": R(Fraction(rng.randint(-24, 24), 8)), "e": R(Fraction(ef).limit_denominator(100)), "e_f": ef,
                    "exact": False, "defined": []})
    for _ in range(12000 if c.thorough else 1500):    # exact lattice parameters on richer series (non-integer abscissae, alpha given)
        out.append(random_rfa_case(rng, exact=True, strategies=WINDOW, mmax=6, nmax=8))
    for _ in range(3000 if c.thorough else 400):      # real exponents: only the exponent-forwarding clause applies
        out.append(random_rfa_case(rng, exact=False, strategies=["ExpFixed", "ExpAdaptive"], mmax=5, nmax=8))
    return out


def expmut(e):
    e["fit_exps"] = [[1, 2, 3]]


main(lambda: run_rfa_check(
    "C06",
    "shape functions: all x0<x1, x0<=x<=x1 on an integer lattice x anchor values x exponents {1/2,1,3/2,2,5/2,3,4} (MC_FunFit: end "
    "points, convexity, affinity in the anchors checked on the model; every tuple replayed and compared with the closed form), "
    "plus real exponents in (0,5] judged by end points and the two blend identities; strategies: the MC_Rfa lattice (border "
    "geometry and larger-jump-smaller-window checked on the model) and seeded random series with non-integer abscissae, alpha "
    "or explicit a, beta, exponent 1..3, smoothing 1..3 - recorded values compared with the exact model given the recorded "
    "(and allowed) windows; the exponent reaching the shape functions is observed and compared bitwise. non-trivial = window "
    "strategy run with >= 3 points and >= 2 distinct values, or a shape-function call with x strictly inside; distinct by input",
    extra,
    [(lambda e: e["fn"] == "rfa" and e["outcome"] == "ok" and e["exact"] and e["strategy"] == "ExpFixed" and len(e["x"]) >= 3
      and len(set(map(tuple, e["y"]))) > 1, lambda e: bump(e, "outy", 1, 300), "C06.value"),
     (lambda e: e["fn"] == "rfa" and e["outcome"] == "ok" and e["strategy"] == "ExpAdaptive" and e["fit_exps"], expmut, "C06.exponent_forwarded"),
     (lambda e: e["fn"] == "rfa" and e["outcome"] == "ok" and e["exact"] and e["strategy"] == "LinearAdaptive" and e["smooth"] == 1
      and len(e["als"]) >= 4, lambda e: e["als"].__setitem__(1, e["als"][1] + 1), "C06.adaptive_windows"),
     (lambda e: e["fn"] == "funfit" and e["exact"] and "exp_lin" in e["defined"], lambda e: bump(e["at"], "exp_lin", 2, 300) if False else e["at"].__setitem__("exp_lin", [1, 77777, 0]), "C06.fit_value")],
    nontrivial=lambda e: (e["fn"] == "rfa" and e.get("strategy") in WINDOW and len(e["x"]) >= 3 and len(set(map(tuple, e["y"]))) > 1)
    or (e["fn"] == "funfit" and e["x0"] != e["x"] != e["x1"])))
