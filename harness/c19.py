"""C19 - remote dataset cache is never corrupt, stale-crossed or fed unchecked data.

(A) TLC explores DatasetCache (spec/DatasetCache.tla) on bounded instances and checks CacheSound, NeverUnverified,
    OfflineWhenCached, RetryBound, NoCrossTalk, ProbeDone (+ LaterLoadSucceeds under fairness), and dumps the
    labelled state graph;
(B) cachelib replays a transition cover + seeded random walks + simulated behaviours + harness-originated random
    schedules into real forked, pipe-gated loader processes (real SIGKILLs) and records what can be observed;
(C) TLC (spec/trace/Trace_Cache.tla) judges every recorded event: C19.* = violation, impl.* = drift."""
import copy
import hashlib
import json

import driver
from driver import Check, main
from vlib import MachineryError, NCPU
import cachelib

driver.validate_events = cachelib.validate_traces      # whole traces must stay together (see cachelib)

STEP_ACTIONS = ("Stat", "Mkdir", "DlBegin", "DlEnd", "Retry", "Verify", "Parse", "DumpBegin", "DumpEnd", "DumpClose", "Rename",
                "Cleanup", "Read", "Return", "Crash", "ProbeStart")


def beh_key(b):
    return hashlib.sha1(json.dumps([b["cfg"], b["slot"], b["net"], b["steps"], b.get("gz", False), b.get("pair")],
                                   sort_keys=True).encode()).hexdigest()


def random_schedule(rng, tid, nprocs):
    """Harness-originated behaviour: arguments, faults and schedule drawn from the seeded generator."""
    dss = ["d1", "d2"] if rng.random() < 0.6 else ["d1"]
    cfg = {}
    for i in range(1, nprocs + 1):
        cfg["p%d" % i] = {"d": rng.choice(dss), "dim": rng.random() < 0.9, "force": rng.random() < 0.3,
                          "val": rng.random() < 0.8, "nret": rng.choice([0, 1, 1, 2, 3])}
    slot = {d: (["data", d, "good"] if rng.random() < 0.35 else ["absent", "", ""]) for d in dss}
    net = {d: [rng.choice(["ok", "ok", "corrupt", "truncated", "URLError", "URLError", "TimeoutError"])
               for _ in range(rng.randint(0, 2 + nprocs))] for d in dss}
    steps = []
    names = sorted(cfg)
    burst = rng.choice([1, 1, 2, 5])
    for _ in range(rng.randint(0, 16 * nprocs)):
        p = rng.choice(names)
        if rng.random() < 0.04:
            steps.append(["Crash", p, ""])
        else:
            steps += [["Step", p, ""]] * rng.randint(1, burst)
    return {"tid": tid, "cfg": cfg, "slot": slot, "net": net, "steps": steps, "gz": rng.random() < 0.3,
            "src": "random-%d" % nprocs}


def apalache_inductive(c, out):
    """(A2) spec/apalache/CacheInd.tla: the safety half of P19 as an INDUCTIVE invariant of DatasetCache.tla (the module TLC
    explores and Trace_Cache reuses), discharged by Apalache for a larger population than TLC can enumerate (quick: 3 loaders +
    1 probe, 2 datasets; thorough: 8 + 2, 3 datasets), any depth, any network behaviour, n_retries 0..3: base case, inductive
    step, and a negative control (the invariant without the facts about the dump / rename boundaries must NOT be inductive,
    otherwise the step check is vacuous).  A failed base / step or a passing control is a fault of the specification (exit 2);
    a run that does not finish in time decides nothing and is recorded as such.  Nothing here speaks about the code."""
    import os
    import shutil
    import subprocess
    import time
    from vlib import SPEC
    if not shutil.which("apalache-mc"):
        out.append({"status": "apalache-mc not installed"})
        return
    wd = c.scratch.path("apalache")
    os.makedirs(wd, exist_ok=True)
    shutil.copy(os.path.join(SPEC, "DatasetCache.tla"), wd)
    shutil.copy(os.path.join(SPEC, "apalache", "CacheInd.tla"), wd)
    cinit = "ConstInit" if c.thorough else "ConstInitQuick"
    jobs = [("base", "BaseInit", "IndInv", 0, False), ("step", "IndInit", "IndInv", 1, False), ("control", "IndInitWeak", "IndInvWeak", 1, True)]

    def one(job):
        name, init, inv, length, expect_error = job
        t0 = time.time()
        try:
            p = subprocess.run(["apalache-mc", "check", "--cinit=" + cinit, "--init=" + init, "--inv=" + inv, "--length=%d" % length,
                                "--out-dir=" + os.path.join(wd, "out-" + name), "CacheInd.tla"], cwd=wd, stdout=subprocess.PIPE,
                               stderr=subprocess.STDOUT, timeout=1500 if c.thorough else 420, text=True, errors="replace")
            txt = p.stdout
        except subprocess.TimeoutExpired:
            return {"obligation": name, "population": cinit, "status": "timeout (decides nothing)"}
        ok = "EXITCODE: OK" in txt and "The outcome is: NoError" in txt
        err = "The outcome is: Error" in txt
        if not ok and not err:
            return {"obligation": name, "population": cinit, "status": "did not run: " + " ".join(txt.split()[-12:])}
        if expect_error != err:
            return {"obligation": name, "population": cinit, "fault": True,
                    "status": "the weakened invariant is inductive: the step check is vacuous" if expect_error
                    else "NOT discharged - the specification's invariant is not inductive:\n" + txt[-1200:]}
        return {"obligation": name, "population": cinit, "init": init, "invariant": inv, "length": length, "wall_s": round(time.time() - t0, 1),
                "status": "counterexample found, as required of the control" if err else "discharged"}
    from concurrent.futures import ThreadPoolExecutor
    with ThreadPoolExecutor(3) as ex:
        out.extend(ex.map(one, jobs))


def run():
    c = Check("C19")
    rng = c.rng
    import threading
    apalache = []
    apa_thread = threading.Thread(target=apalache_inductive, args=(c, apalache))
    if not c.replay_path:
        apa_thread.start()
    registry = cachelib.extract_registry()                 # for the registry-level ordered pairs
    cachelib.WORLD = cachelib.World(registry)
    live = [r["name"] for r in registry if r["kind"] == "remote" and r["call"]["resolves"] and r["call"]["loader"] == "remote"]
    pool = cachelib.ReplayPool(c.scratch.dir, NCPU)       # lean workers, forked before any big data is loaded
    behs = []
    cover_stats = {}

    def add(graph, walks, src, gz_every=4):
        for root, acts in walks:
            behs.append(graph.behaviour(root, acts, 0, gz=(len(behs) % gz_every == 0), src=src))

    if c.replay_path:
        ev = json.load(open(c.replay_path))["event"]
        behs = [ev["meta"]["beh"]]
    else:
        # ---- (A) bounded instances of DatasetCache ----------------------------------------------------
        # one process: every fault sequence (<= NRetries+2 failures, then ok/corrupt/truncated), all 8 flag
        # combinations, cache absent/present, crash at every boundary, probe load afterwards;
        # two processes: all interleavings; three: exhaustive (thorough) and -simulate; four: -simulate.
        two = "MC_Cache2_thorough" if c.thorough else "MC_Cache2_quick"
        jobs = []
        for n in (0, 1, 3):
            jobs.append({"module": "MC_Cache", "cfg": "MC_Cache1_n%d.cfg" % n, "coverage": True, "graph": "1-n%d" % n,
                         "require_actions": [a for a in STEP_ACTIONS if n > 0 or a != "Retry"]})
            jobs.append({"module": "MC_Cache", "cfg": "MC_Cache1_n%d_live.cfg" % n})      # LaterLoadSucceeds
        jobs.append({"module": "MC_Cache", "cfg": two + ".cfg", "coverage": True, "graph": "2",
                     "require_actions": STEP_ACTIONS})
        jobs.append({"module": "MC_Cache", "cfg": two + "_live.cfg"})
        if c.thorough:
            for big in ("MC_Cache3_thorough.cfg", "MC_Cache2x2_thorough.cfg"):     # exhaustive, no graph dump
                jobs.append({"module": "MC_Cache", "cfg": big, "coverage": True, "require_actions": STEP_ACTIONS,
                             "workers": NCPU, "heap": "16g"})
        for inst, num in (("MC_CacheSim_3", 120 if c.thorough else 12), ("MC_CacheSim_4", 60 if c.thorough else 6)):
            jobs.append({"module": "MC_CacheSim", "modules": ["MC_CacheSim", "MC_Cache"], "cfg": inst + ".cfg",
                         "simulate": "num=%d" % num, "depth": 150, "sim": inst})
        results = cachelib.run_models(c, jobs, parallel=4)
        for j, r in zip(jobs, results):
            if "graph" in j:
                g = cachelib.Graph(r.json_lines, generated=r.generated)
                need = set(cachelib.GATE_ACTION) - ({"retry"} if j["cfg"].startswith("MC_Cache1_n0") else set())
                if not need <= g.crash_points:         # vacuity guard: Crash taken at every step boundary
                    raise MachineryError("%s: no Crash explored at %s" % (j["cfg"], sorted(need - g.crash_points)))
                if j["graph"] == "2":
                    limit = None if c.thorough else 3000
                    nwalk = 3000 if c.thorough else 300
                else:
                    limit = None if (c.thorough or j["graph"] != "1-n3") else 4000
                    nwalk = 300 if c.thorough else 60
                walks, covered = g.cover(rng if limit else None, limit)
                cover_stats[j["cfg"][:-4]] = {"edges": g.nedges, "edges_covered": covered, "walks": len(walks)}
                add(g, walks, "cover" + j["graph"])
                add(g, g.random_walks(rng, nwalk), "walk" + j["graph"])
            elif "sim" in j:
                got = 0
                for x in r.json_lines:
                    if x.get("k") == "beh":
                        got += 1
                        behs.append({"tid": 0, "cfg": x["cfg"], "slot": x["slot"], "net": x["net"],
                                     "steps": x["steps"], "gz": len(behs) % 4 == 0, "src": j["sim"]})
                if not got:
                    raise MachineryError("%s: simulation produced no complete behaviour" % j["sim"])
        # ---- harness-originated schedules, 2..16 processes ------------------------------------------
        for k in range(1500 if c.thorough else 150):
            behs.append(random_schedule(rng, 0, rng.choice([2, 2, 3, 4, 6, 8, 12, 16])))
        # ---- every ordered pair of remote datasets through the real load_dataset ---------------------
        for a in live:
            for b in live:
                if a != b:
                    behs.append({"tid": 0, "pair": [a, b], "cfg": {"p1": {}, "p2": {}}, "slot": {}, "net": {},
                                 "steps": [], "src": "registry-pair"})
    for i, b in enumerate(behs):
        b["tid"] = i + 1

    # ---- (B) replay into real forked loaders ----------------------------------------------------------
    import time
    t_models = time.time() - c.t0
    traces = pool.replay(behs)
    pool.close()
    t_replay = time.time() - c.t0 - t_models
    by_src = {}
    ncrash = nfault = 0
    for b, evs in zip(behs, traces):
        meta = {"beh": b}
        crashed = any(e["k"] == "crash" for e in evs)
        faulted = any(e.get("o") in ("URLError", "TimeoutError", "corrupt", "truncated") for e in evs)
        ncrash += crashed
        nfault += faulted
        for e in evs:
            e["meta"] = meta
        c.events.extend(evs)
        by_src[b.get("src", "")] = by_src.get(b.get("src", ""), 0) + 1
        if crashed or faulted or len(b["cfg"]) >= 2 or any(v[0] == "data" for v in b["slot"].values()):
            c.count_nontrivial(beh_key(b))

    # ---- negative controls: one recorded trace, one field corrupted -----------------------------------
    base = next((t for t in traces if t[-1]["k"] == "step" and t[-1]["r"] == ["data", "d1", "good"]), None)
    if c.replay_path:
        base = None
    elif base is None:
        raise MachineryError("no trace ends with a successful probe load: nothing to build the negative control from")
    ntid = len(behs) + 1
    for field, value, expect in ((("r", ["data", "d1", "bad"], "C19.NeverUnverified"),
                                  ("s", None, "C19.CacheSound"),
                                  ("x", 1, "impl.step")) if base else ()):
        t = copy.deepcopy([{k: v for k, v in e.items() if k != "meta"} for e in base])
        for e in t:
            e["tid"] = ntid
        if field == "s":
            d = sorted(t[-1]["s"])[0]
            t[-1]["s"][d] = ["partial", "", ""]
        else:
            t[-1][field] = value
        t[-1]["_neg"] = expect
        c.negs.extend(t)
        ntid += 1

    if not c.replay_path:
        apa_thread.join()
        for a in apalache:
            if a.get("fault"):
                raise MachineryError("Apalache, obligation %s: %s" % (a["obligation"], a["status"]))
    c.rule = ("a case = one behaviour (arguments of every load, initial cache, outcome sequence per URL, schedule with "
              "crash points) replayed into real forked gated loaders; behaviours come from the TLC state graphs "
              "(transition cover + seeded walks), TLC -simulate and seeded random schedules for 2..16 processes; every "
              "trace ends with a probe load per dataset; non-trivial = has a network fault, a crash, a pre-filled "
              "cache or at least two processes; distinct by (arguments, cache, network, schedule, gzip)")
    ntr = len(behs)
    c.coverage_extra = {"traces_validated_against_impl": ntr, "evaluations": ntr, "events_judged": len(c.events),
                        "behaviours_by_source": by_src, "transition_cover": cover_stats,
                        "models_wall_s": round(t_models, 1), "replay_wall_s": round(t_replay, 1),
                        "traces_with_crash": ncrash, "traces_with_network_fault": nfault,
                        "apalache_inductive_invariant": apalache}
    c.assumptions = ["TLC 1.8 and CommunityModules Json/IOUtils/TLCExt",
                     "Linux fork / SIGKILL / rename semantics on the scratch file system (/verif/.scratch)",
                     "step boundaries are the patched module-level names of traffic_weaver.datasets._base "
                     "(urlretrieve, time.sleep, os.makedirs, os.rename, open + close of the written file, pickle.dump, np.loadtxt, _sha256, "
                     "TemporaryDirectory); code that bypasses them is seen as fewer, larger steps (drift, not violation)",
                     "synthetic CSV payloads; pinned checksum = true SHA-256 of the genuine payload",
                     "calls with validate_checksum=False that cache an unverified payload are outside NeverUnverified/"
                     "CacheSound's 'verified' clause (the slot is marked tainted in the spec)"]
    samples = [{"behaviour": {k: v for k, v in behs[i].items()},
                "events": [{k: v for k, v in e.items() if k != "meta"} for e in traces[i][:4]]}
               for i in sorted({0, len(behs) // 2, len(behs) - 1})]
    return c.finish(trace_module="Trace_Cache", samples=samples, exhaustive=False)


main(run)
