"""C12 - repeat is a periodic extension with the original spacing."""
from driver import main
from procfam import run_family

main(lambda: run_family(
    "C12", "repeat",
    "series on the half-integer lattice (all gap patterns in {1/2,1,3/2}, start 0 or 2, 2..MaxLen points) x all (a, b) with "
    "a*b <= 12 emitted by TLC, plus seeded random dyadic series of 2..40 points (uniform and not, list/array/int "
    "containers), r in 1..12; each replayed through process.repeat, Weaver.repeat(r).get()/get_reference() and the "
    "composition repeat(repeat(s,a),b) vs repeat(s,a*b); non-trivial = r >= 2 and >= 3 points; distinct by full input",
    [("repeat", "outx", "C12.value"), ("repeat2", "abx", "C12.composition"), ("repeat", "wx", "C12.weaver")],
    nontrivial=lambda e: len(e["x"]) >= 3 and e.get("r", e.get("a", 1) * e.get("b", 1)) >= 2))
