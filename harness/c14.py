"""C14 - trend, shift, scale and normalise are exact pointwise maps."""
from driver import main
from procfam import run_family

main(lambda: run_family(
    "C14", "pointwise",
    "every lattice series (abscissae starting at 0 and at 2, so x/(span) differs from a [0,1] normalisation) x "
    "polynomial trends c0+c1 t+c2 t^2 (4 coefficient triples incl. zero) x normalised flag, normalise targets "
    "{-3,0}x{1,5} on both axes, shift/scale by {-3,-1,1/2,2} (emitted by TLC; additivity and zero-trend laws checked "
    "on the model), plus seeded random dyadic series; replayed through process.trend (argument handed to the callable "
    "is logged), linear_trend, normalize and the Weaver operations; non-trivial = >= 3 points; distinct by input",
    [("trend", "outy", "C14.trend_value"), ("normalize", "out", "C14.normalize"), ("shiftscale", "wx", "C14.shift_scale"),
     ("trend", "fargs", "C14.trend_arg")],
    nontrivial=lambda e: len(e.get("x", e.get("a"))) >= 3))
