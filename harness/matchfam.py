"""Case generators for integral matching (C01, C03) and the recreate + match pipeline (C02)."""
from fractions import Fraction

RULES = ["trapezoid", "rectangle"]


def R(v):
    f = Fraction(v)
    return [f.numerator, f.denominator]


def grid(rng, nmin, nmax, den=2, gaps=(1, 2, 3), uniform_p=0.3):
    n = rng.randint(nmin, nmax)
    t = Fraction(rng.choice([0, 0, 3, -5, -1, -2, -3]), rng.choice([1, 1, 2]))
    g0 = Fraction(rng.choice(gaps), den)
    uni = rng.random() < uniform_p
    xs = []
    for _ in range(n):
        xs.append(t)
        t += g0 if uni else Fraction(rng.choice(gaps), den)
    return xs


def pick_fixed(rng, n, maxwin=8, minint=1):
    """Ascending sample indices with at least `minint` interior samples per window."""
    idx = [rng.randint(0, max(0, min(3, n - 3)))]
    while True:
        step = rng.randint(minint + 1, maxwin - 1)
        if idx[-1] + step > n - 1 or (len(idx) >= 2 and rng.random() < 0.25) or len(idx) > 5:
            break
        idx.append(idx[-1] + step)
    return idx


def random_match_case(rng, exact=True, scope="in"):
    big = (not exact) and rng.random() < 0.3
    if big:
        xs = grid(rng, 60, 1000, den=rng.choice([1, 2]), gaps=(1,) if rng.random() < 0.5 else (1, 2, 3))
        maxwin = 40 if len(set(b - a for a, b in zip(xs, xs[1:]))) > 1 else 200
    else:
        xs = grid(rng, 3, 22)
        if rng.random() < 0.12:          # non-negative integer abscissae (they may be handed over in an unsigned integer array)
            xs = [Fraction(int(v * 2) + 10) for v in xs]
        maxwin = 8
    n = len(xs)
    minint = 0 if scope == "degenerate" else 1
    fpi = pick_fixed(rng, n, maxwin=maxwin, minint=minint)
    if len(fpi) < 2:
        fpi = [0, n - 1] if n - 1 <= maxwin else [0, min(n - 1, maxwin - 1)]
    ys = [Fraction(rng.randint(-20, 20), 4) for _ in range(n)]
    ycont = "array"
    if rng.random() < 0.15:                      # integer-valued y handed over as an int array / a list
        ys = [Fraction(rng.randint(-9, 9)) for _ in range(n)]
        ycont = rng.choice(["int", "list"])
    mode = rng.choice(["search", "search", "positions", "indices"])
    # (explicitly given fixed points are matched to the CLOSEST reference points whatever search strategy is named: the strategy
    #  only steers the search mode - seed C01i forwarded it to the reference lookup of the explicit modes)
    strategy = rng.choice(["closest", "closest", "lower", "higher"]) if mode == "search" else rng.choice(["closest", "lower", "higher"])
    xref = []
    for i in fpi:
        lo = (xs[i] - xs[i - 1]) if i > 0 else Fraction(1)
        hi = (xs[i + 1] - xs[i]) if i < n - 1 else Fraction(1)
        r = rng.random()
        if r < 0.5:
            d = Fraction(0)
        elif strategy == "lower" and mode == "search":
            d = hi * Fraction(rng.choice([1, 2, 3]), 4)
        elif strategy == "higher" and mode == "search":
            d = -lo * Fraction(rng.choice([1, 2, 3]), 4)
        else:
            d = rng.choice([-lo, hi]) * Fraction(1, 4)
            if r > 0.9 and mode == "search":
                d = -lo / 2          # exactly half-way below: the tie resolves to the lower sample, i.e. another fixed point
        xref.append(xs[i] + d)
    if any(b <= a for a, b in zip(xref, xref[1:])):
        xref = [xs[i] for i in fpi]
    if mode != "search" and rng.random() < 0.6:
        # explicitly designated fixed points: the reference may have more points than there are fixed points (before the
        # first, beyond the last, inside a window); they sit on / next to samples that are far from every fixed sample
        extra = []
        if fpi[0] >= 2 and rng.random() < 0.5:
            extra.append(xs[0] - Fraction(rng.choice([0, 1]), 4))
        if fpi[-1] <= n - 3 and rng.random() < 0.7:
            extra.append(xs[-1] + Fraction(rng.choice([0, 1, 8]), 4))
        elif rng.random() < 0.5:
            extra.append(xs[-1] + 5 + Fraction(rng.choice([0, 1]), 4))
        for a_, b_ in zip(fpi, fpi[1:]):
            if b_ - a_ >= 4 and rng.random() < 0.4:
                extra.append(xs[(a_ + b_) // 2] + (xs[(a_ + b_) // 2 + 1] - xs[(a_ + b_) // 2]) * Fraction(1, 8))
        cand = sorted(set(xref) | set(extra))
        if all(b_ > a_ for a_, b_ in zip(cand, cand[1:])):
            # keep only if every fixed sample is still strictly closest to its own reference point
            def closest(v):
                return min(cand, key=lambda r: (abs(r - v), r))
            if all(closest(xs[i]) == r for i, r in zip(fpi, xref)):
                xref = cand
    yref = [Fraction(rng.randint(-20, 20), 4) for _ in xref]
    c = {"fn": "match", "x": [R(v) for v in xs], "y": [R(v) for v in ys], "xref": [R(v) for v in xref], "yref": [R(v) for v in yref],
         "mode": mode, "strategy": strategy, "trule": rng.choice(RULES), "rrule": rng.choice(RULES),
         "given": [] if mode == "search" else [R(xs[i]) for i in fpi] if mode == "positions" else list(fpi),
         "exact": exact, "bounded": True, "mc": False, "ycontainer": ycont}
    if mode in ("indices", "positions") and rng.random() < 0.3:
        c["given"] = list(reversed(c["given"])) + c["given"][:1]          # unsorted with a duplicate: np.unique
    if exact:
        # keep the exact model inside TLC's 32-bit rationals: higher powers only on short windows
        maxw = max(b - a for a, b in zip(fpi, fpi[1:])) + 1
        c["alpha"] = R(rng.choice([1, 1, 2, 3, Fraction(1, 2), Fraction(3, 2)] if maxw <= 4 else [1, 1, 2] if maxw <= 6 else [1]))
    else:
        af = rng.choice([rng.uniform(0.05, 1.0), rng.uniform(1.0, 8.0)])
        c["alpha_f"] = af
        c["alpha"] = R(Fraction(af).limit_denominator(1000))
    if scope == "reject":
        k = rng.random()
        if k < 0.4 and mode != "search":
            c["mode"], c["given"] = "positions", [R(xs[i] + Fraction(1, 16)) for i in fpi]      # not samples of x
        elif k < 0.7:
            c["mode"], c["given"] = "positions", [R(xs[0] + Fraction(j, 64)) for j in range(n + 1)]   # outnumber x
        elif k < 0.85:
            c["mode"], c["given"] = "indices", [0] * (n + 1)
        else:
            c[rng.choice(["trule", "rrule"])] = "simpson"
    # (only when every reference point sits on its fixed sample: then reference and window widths agree and adding a
    #  constant to both series adds the same to every target and every window integral)
    if scope == "in" and not big and exact and xref == [xs[i] for i in fpi] and rng.random() < 0.5:
        c["yoff"] = [rng.choice([-1, 1]), rng.choice([17, 20])]          # values on a level far above their variation (exact translation)
    if mode == "indices" and scope == "in" and len(fpi) >= 2 and rng.random() < 0.3:
        # positions given together with the indices, and designating other samples: the indices win (documented)
        others = [i for i in range(n) if i not in fpi]
        if others:
            c["decoy"] = [R(xs[i]) for i in sorted(rng.sample(others, min(len(others), 2)))]
    if scope in ("in", "reject") and all(v.denominator == 1 and 0 <= v < 250 for v in xs) and rng.random() < 0.5:
        c["container"] = rng.choice(["uint8", "uint16", "int16", "int"])       # integer-typed abscissae (counters, sample numbers)
    elif scope == "in" and not big and rng.random() < 0.12:
        c["xoff"] = [rng.choice([-1, 1]), rng.choice([31, 40])]     # the same problem far from the origin (exact translation)
    return c


CASE_KEYS = ("fn", "x", "y", "xref", "yref", "mode", "strategy", "given", "trule", "rrule", "alpha", "alpha_f", "exact", "bounded", "container", "ycontainer", "mc", "xoff", "yoff", "decoy")


def random_private_case(rng):
    """Direct calls of the private kernels with the defaults of their optional arguments (beyond the listed properties)."""
    n = rng.randint(3, 14)
    xnone = rng.random() < 0.5
    xs = [Fraction(i) for i in range(n)] if xnone else (grid(rng, n, n))
    c = {"fn": "stretch_private", "xnone": xnone, "x": [R(v) for v in xs], "dx": R(rng.choice([1, Fraction(1, 2), 2])),
         "y": [R(Fraction(rng.randint(-20, 20), 4)) for _ in range(n)], "rule": rng.choice(RULES), "alpha": R(rng.choice([1, 1, 2, 3])),
         "ycontainer": rng.choice(["array", "array", "list"]),
         "kind": "window", "target": R(0), "valsnone": False, "values": [], "fpinone": False, "fpi": []}
    r = rng.random()
    if r < 0.3:
        c["target"] = R(Fraction(rng.randint(-40, 40), 4))
        if rng.random() < 0.3:
            c.update(target=R(0), target_default=True)
        return c
    c["kind"] = "interval"
    fpi = pick_fixed(rng, n, maxwin=6, minint=rng.choice([0, 1]))
    if len(fpi) < 2:
        fpi = [0, n - 1]
    vals = [R(Fraction(rng.randint(-40, 40), 4)) for _ in range(len(fpi) - 1)]
    if r < 0.5:
        c.update(fpi=fpi, values=vals)
    elif r < 0.65:
        c.update(fpi=fpi, valsnone=True)
    elif r < 0.92:
        nv = rng.randint(1, max(1, n // 2))
        c.update(fpinone=True, values=[R(Fraction(rng.randint(-40, 40), 4)) for _ in range(nv)])
    else:
        c.update(fpinone=True, valsnone=True)
    return c


def case_of_event(ev):
    c = {k: ev[k] for k in CASE_KEYS if k in ev}
    c.setdefault("bounded", True)
    return c


def from_emission(j):
    return {"fn": "match", "x": [R(v) for v in j["x"]], "y": j["y"], "xref": j["xref"], "yref": j["yref"], "mode": j["mode"],
            "strategy": j["strategy"], "given": j["given"], "trule": j["trule"], "rrule": j["rrule"], "alpha": j["alpha"],
            "exact": True, "bounded": True, "mc": True}


def run_match_check(pid, rule, negatives):
    import copy
    import json
    from driver import Check, MachineryError
    from fnexec import execute
    c = Check(pid)
    r = c.model("MC_Match", "MC_Match_%s.cfg" % c.tier, timeout=3400, emits_all=False)
    # the kernel is affine in (y, target): P01 / P03 of one window on an affine basis = for all real y and targets (model level)
    c.model("MC_MatchBasis", "MC_MatchBasis_%s.cfg" % c.tier, timeout=3400, emits_all=False)
    judged = sum(1 for j in r.json_lines if j["judged"])
    if judged * 4 < len(r.json_lines):
        raise MachineryError("vacuous: only %d of %d model behaviours are inside the property's scope" % (judged, len(r.json_lines)))
    cases = [from_emission(j) for j in r.json_lines]
    if not c.thorough:        # quick tier: replay a deterministic quarter of the emitted behaviours (all of them in thorough)
        cases = [k for i, k in enumerate(cases) if i % 4 == c.seed % 4]
    lattice = len(cases)
    nrand = 20000 if c.thorough else 2500
    for i in range(nrand):
        k = i % 10
        cases.append(random_match_case(c.rng, exact=(k < 5), scope="reject" if k == 9 else "degenerate" if k == 8 else "in"))
    if pid == "C01":
        cases += [random_private_case(c.rng) for _ in range(nrand // 10)]
    if c.replay_path:
        rev = json.load(open(c.replay_path))["event"]
        cases = [case_of_event(rev) if rev["fn"] == "match" else {k: v for k, v in rev.items() if k not in ("outcome", "out", "id", "tags")}]
    evs = c.run_cases(cases, execute)
    for e in evs:
        if e["fn"] == "match" and e["outcome"] == "ok" and len(e["xref"]) >= 3:
            c.count_nontrivial(json.dumps(case_of_event(e), sort_keys=True))
    if not c.replay_path:
        mevs = [e for e in evs if e["fn"] == "match"]
        for pred, mut, prefix in negatives:
            c.negative_from(mevs, pred, mut, prefix)
        c.negative_from(evs, lambda e: e["fn"] == "stretch_private" and e["outcome"] == "ok" and e["kind"] == "interval" and len(e["out"]) > 2,
                        lambda e: e["out"].__setitem__(1, [1, 99999, 7]), "impl.stretch_private.interval")
    c.rule = rule
    c.coverage_extra = {"lattice_cases_from_tlc": lattice, "lattice_cases_in_scope": judged, "harness_originated_cases": len(cases) - lattice}
    c.assumptions = ["TLC 1.8, CommunityModules Json/IOUtils",
                     "stage 1: recorded result within 2e-8 of the exact rational model, for which TLC evaluates P01/P03 exactly; "
                     "stage 2 (results that differ from the model, or exponents that are not exactly computable): clauses evaluated on the "
                     "recorded values at 1e-4 resolution with slack bounding the projection error",
                     "cases outside the stated scope (coinciding fixed points, windows without interior sample) are recorded, not judged"]
    return c.finish(exhaustive=False)
