"""C03 - matching moves only interior samples, along the documented profile."""
from driver import main
from matchfam import run_match_check


def move_outside(e):
    f = e["out"][-1]
    e["out"][-1] = [1, (f[1] if f[0] >= 0 else 0) + 70, f[2]]


def break_idem(e):
    f = e["out2"][1]
    e["out2"][1] = [1, (f[1] if f[0] >= 0 else 0) + 70, f[2]]


def skew_profile(e):
    # exchange the displacement between two interior samples of one window: same integral on a uniform window, other profile
    f = e["out"][1]
    e["out"][1] = [1, (f[1] if f[0] >= 0 else 0) + 3000, f[2]]
    e["out2"] = list(e["out"])


main(lambda: run_match_check(
    "C03",
    "same behaviours as C01 (MC_Match: P03 frame / one sign / proportionality to 1-(2|x-c|/w)^alpha by cross-multiplication, "
    "idempotence and the profile lemmas hold on the model exactly); recorded results are judged by equality with the model, and "
    "results that differ from it by the frame, sign and profile clauses evaluated on the recorded values; idempotence is judged on "
    "the recorded pair (first and second application). non-trivial = accepted run with >= 2 windows; distinct by full input",
    [(lambda e: e["outcome"] == "ok" and e["mode"] == "indices" and e["given"] == [0, 2] and len(e["x"]) == 5, move_outside, "C03.frame"),
     (lambda e: e["outcome"] == "ok" and len(e["out2"]) > 2 and e["mode"] == "indices" and e["given"] == [0, 2, 4], break_idem, "C03.idempotent"),
     (lambda e: e["outcome"] == "ok" and e["small"] and e["exact"] and e["alpha"] == [1, 1] and e["mode"] == "indices" and e["given"] == [0, 4], skew_profile, "C03.profile")]))
