"""C11 - truncation and slicing select exactly the requested range."""
from driver import main
from procfam import run_family

main(lambda: run_family(
    "C11", "truncate",
    "every lattice series x every pair of bounds on the half-integer lattice from one below the first to one above "
    "the last abscissa (absolute) and every pair of ratios k/4, k in -1..5; slice_by_value with every start/stop on "
    "that lattice or omitted, step 1/2; slice_by_index / truncate_by_index with every start in -1..len, stop in "
    "-2..len+1 or omitted, steps 1, 2, -1, -2 (emitted by TLC); plus seeded random dyadic series of 2..40 points with "
    "bounds on / between / beyond samples; replayed through process.truncate, Weaver.truncate_by_value (working and "
    "reference series), slice_by_value, slice_by_index, truncate_by_index; non-trivial = >= 3 points; distinct by input",
    [("truncate", "outx", "C11.truncate"), ("slice_index", "outx", "C11.slice_by_index"), ("truncate", "wrx", "C11.reference_cut")],
    nontrivial=lambda e: len(e["x"]) >= 3))
