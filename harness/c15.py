"""C15 - noise is purely additive and obeys the signal-to-noise definition."""
import copy
import json
from fractions import Fraction

from driver import Check, MachineryError, main
from fnexec import execute


def R(v):
    f = Fraction(v)
    return [f.numerator, f.denominator]


def from_emission(j, via):
    return {"fn": "noise", "a": [R(v) for v in j["a"]], "mode": j["mode"], "snr": j["snr"], "std": j["std"], "draw": j["draw"], "via": via}


def random_cases(rng, n):
    out = []
    for _ in range(n):
        m = rng.randint(2, 40)
        kind = rng.random()
        if kind < 0.3:      # signals whose power is a perfect square: the scale is judged exactly
            c = Fraction(rng.randint(1, 12), rng.choice([1, 2, 4]))
            a = [c * rng.choice([-1, 1]) for _ in range(m)]
        else:
            a = [Fraction(rng.randint(-24, 24), 4) for _ in range(m)]
            if all(v == 0 for v in a):
                a[0] = Fraction(1)
        narrow = None
        if rng.random() < 0.15:      # small integers in a narrow integer array: every square fits the dtype, their sum does not
            a = [Fraction(rng.choice([-11, -9, -7, 5, 8, 10, 11, 3])) for _ in range(max(m, 6))]
            m = len(a)
            narrow = rng.choice(["int8", "int8", "int16"])
        mode = rng.choice(["db", "db", "linear", "std"])
        per_sample = rng.random() < 0.3 and mode != "std"
        k = m if per_sample else 1
        if mode == "db":
            snr = [R(rng.choice([-20, -10, 0, 10, 20, 30])) for _ in range(k)]
        else:
            snr = [R(rng.choice([Fraction(1, 4), 1, 4, 9, 25, 100, Fraction(1, 100), 7, Fraction(5, 2)])) for _ in range(k)]
        out.append({"fn": "noise", "a": [R(v) for v in a], "mode": mode, "snr": snr, "std": R(rng.choice([Fraction(1, 2), 1, 2, Fraction(7, 4), 0])),
                    "draw": [R(Fraction(rng.randint(-16, 16), 8)) for _ in range(m)], "via": rng.choice(["function", "weaver"]),
                    "container": narrow or rng.choice(["array", "list", "int"]), "snr_container": rng.choice(["array", "list", "uint8", "uint16", "int64", "int8"])})
    return out


def run():
    c = Check("C15")
    r = c.model("MC_Env", "MC_Env_%s.cfg" % c.tier, emits_all=False)
    if not any(j["power_differs"] for j in r.json_lines):
        raise MachineryError("vacuous: no signal with mean(a^2) # mean(a)^2 in the instance")
    cases = []
    for i, j in enumerate(r.json_lines):
        cases.append(from_emission(j, "function" if i % 2 else "weaver"))
    lattice = len(cases)
    cases += random_cases(c.rng, 12000 if c.thorough else 1500)
    if c.replay_path:
        ev = json.load(open(c.replay_path))["event"]
        cases = [{k: ev[k] for k in ("fn", "a", "mode", "snr", "std", "draw", "via", "container", "snr_container") if k in ev}]
    evs = c.run_cases(cases, execute)
    for e in evs:
        if len(set(map(tuple, e["a"]))) > 1:
            c.count_nontrivial(json.dumps([e[k] for k in ("a", "mode", "snr", "std", "via")]))
    if not c.replay_path:
        def neg(pred, mut, prefix):
            c.negative_from(evs, pred, mut, prefix)
        ok = lambda e: e["outcome"] == "ok" and len(e["calls"]) == 1
        def scale_bump(e):
            f = e["calls"][0]["scale"][0]
            e["calls"][0]["scale"][0] = [1, f[1] * 2 + 7, f[2]]
        neg(lambda e: ok(e) and e["mode"] == "db", scale_bump, "C15.scale_rule")
        neg(lambda e: ok(e) and e["mode"] == "std", scale_bump, "C15.std_fallback")
        neg(ok, lambda e: e["calls"][0].__setitem__("loc", [1, 5000, 0]), "C15.zero_mean")
        def out_bump(e):
            f = e["out"][0]
            e["out"][0] = [1, (f[1] if f[0] > 0 else 0) + 9, f[2]]
        neg(ok, out_bump, "C15.additive")
    c.rule = ("lattice (MC_Env): every signal over {-3,-1,0,2,4} of 2..MaxN samples x {6 decibel levels, 4 linear levels, 2 explicit std, per-sample "
              "decibel and linear vectors} x 2 draws of the environment, emitted by TLC and replayed through process.noise_gauss and "
              "Weaver.noise with numpy.random.normal rebound to a recorder that logs (loc, scale, size) and returns the specification's draw; "
              "harness-originated: seeded random signals of 2..40 samples (sign-changing, non-constant; perfect-square power for exact scale "
              "judgement), list/array/int containers. Clauses: one draw, loc = 0, draw shape, scale rule (exact when scale^2 is a perfect-"
              "square rational, else bracketed at 0.1% in 1e-3 units), result = signal + draw, x / length unchanged through the Weaver, two "
              "real runs under the same NumPy seed identical. non-trivial = non-constant signal; distinct by (signal, level, path)")
    c.coverage_extra = {"lattice_cases_from_tlc": lattice, "random_cases": len(cases) - lattice,
                        "lattice_cases_with_power_differing_from_squared_mean": sum(1 for j in r.json_lines if j["power_differs"])}
    c.assumptions = ["TLC 1.8, CommunityModules Json/IOUtils",
                     "the statistical clause (empirical SNR of a long series) is NOT decided by this check: it follows from the deterministic clauses "
                     "plus NumPy's contract for normal(0, scale) and is outside what a TLA+ specification can evaluate (DESIGN 6)",
                     "numpy.random.normal is rebound from outside for the recorded run; reproducibility is checked with the real generator"]
    return c.finish(exhaustive=False)


main(run)
