"""Replay machinery for C18 / C19: behaviours of the TLA+ model DatasetCache are driven into REAL forked loader
processes running the real traffic_weaver.datasets._base.load_csv_dataset_from_remote against a real scratch
data home.  Module-level names of _base are rebound from outside (inside the forked child only) so that every
step boundary blocks on a pipe until the scheduler grants it; a crash is a real SIGKILL delivered while the
victim waits at a boundary.  After every granted step the scheduler records an event (observable state of the
cache slots, temp files, network outcome consumed, result) - TLC (Trace_Cache.tla) is the only judge.

No wall clock anywhere: a step is complete when the child has reported its next boundary (or its result)."""
import builtins
import gzip as _gzip
import hashlib
import io
import json
import os
import pickle
import random
import re
import shutil
import signal
import sys
import time as _time
import warnings
from collections import deque
from tempfile import TemporaryDirectory as _RealTD
from urllib.error import URLError

import numpy as np

from vlib import MachineryError, NCPU, TLCResult, use_repo
import vlib

use_repo()
import traffic_weaver.datasets._base as base  # noqa: E402

FOLDER = "verif-cache"
ERRORS = ("URLError", "TimeoutError")
GATE_ACTION = {"start": "Stat", "mkdir": "Mkdir", "dl": "DlBegin", "dlmid": "DlEnd", "retry": "Retry",
               "verify": "Verify", "parse": "Parse", "dump": "DumpBegin", "dumpmid": "DumpEnd", "dumpclose": "DumpClose", "rename": "Rename",
               "cleanup": "Cleanup", "read": "Read", "ret": "Return"}


# --------------------------------------------------------------------------------------------------------
# synthetic datasets: payloads with their true SHA-256 as the pinned checksum
# --------------------------------------------------------------------------------------------------------
class FakeDataset:
    def __init__(self, name, index, gz=False):
        self.name, self.gz = name, gz
        self.url = "https://fake.invalid/files/%s" % name
        self.remote_filename = "%s_2024.csv%s" % (name, ".gz" if gz else "")
        self.slot = name
        rows_good = [(k, 10 * index + k * 0.5) for k in range(7)]
        rows_bad = [(k, 10 * index + k * 0.5 + 100.25) for k in range(7)]
        txt = lambda rows: "".join("%d,%.2f\n" % r for r in rows).encode()
        good, bad = txt(rows_good), txt(rows_bad)
        cut = good[:good.rindex(b",")]                  # ends in the middle of the last row: "6" without a second column
        assert cut.endswith(b"\n6")
        if gz:
            # a gzip file may consist of several members (cat a.gz b.gz, pigz -i): split at a line boundary
            def z(b):
                k = b.index(b"\n", len(b) // 2) + 1
                return _gzip.compress(b[:k], mtime=0) + _gzip.compress(b[k:], mtime=0)
            zgood = z(good)
            self.payload = {"ok": zgood, "corrupt": z(bad), "truncated": zgood[:2 * len(zgood) // 3]}
        else:
            self.payload = {"ok": good, "corrupt": bad, "truncated": cut}
        self.checksum = hashlib.sha256(self.payload["ok"]).hexdigest()
        self.arr = {"good": np.loadtxt(io.BytesIO(good), delimiter=",", dtype=np.float64),
                    "bad": np.loadtxt(io.BytesIO(bad), delimiter=",", dtype=np.float64)}
        self.pickled = {k: pickle.dumps(v) for k, v in self.arr.items()}
        self.digest = {k: array_digest(v) for k, v in self.arr.items()}

    def remote(self):
        return base.RemoteFileMetadata(filename=self.remote_filename, url=self.url, checksum=self.checksum)


def array_digest(a):
    try:
        a = np.asarray(a)
        return hashlib.sha1(repr((a.shape, str(a.dtype))).encode() + np.ascontiguousarray(a).tobytes()).hexdigest()
    except Exception:
        return "undigestable"


# --------------------------------------------------------------------------------------------------------
# the forked child: gates + patched names
# --------------------------------------------------------------------------------------------------------
class _Proxy:
    """Stands for a module bound to a global name of _base; selected attributes are replaced."""

    def __init__(self, target, **over):
        self.__dict__["_t"] = target
        self.__dict__.update(over)

    def __getattr__(self, k):
        return getattr(self._t, k)


class _Chan:
    def __init__(self, up_w, down_r):
        self.up_w, self.down_r = up_w, down_r

    def gate(self, name):
        os.write(self.up_w, (name + "\n").encode())
        buf = b""
        while not buf.endswith(b"\n"):
            c = os.read(self.down_r, 256)
            if not c:
                os._exit(3)           # scheduler went away
            buf += c
        parts = buf.decode().strip().split(" ", 1)
        return parts[1] if len(parts) > 1 else ""

    def final(self, obj):
        os.write(self.up_w, ("done " + json.dumps(obj) + "\n").encode())


def classify_exc(ex):
    if isinstance(ex, URLError):
        return "URLError"
    if isinstance(ex, TimeoutError):
        return "TimeoutError"
    if isinstance(ex, OSError) and not isinstance(ex, (EOFError, _gzip.BadGzipFile)):
        return "OSError"
    return type(ex).__name__


def install_gates(ch, payload_of_url):
    """Rebind the module-level names of _base (in this process only) so that each step boundary is a gate."""
    real_open = builtins.open

    def urlretrieve(url, filename=None, *a, **kw):
        o = ch.gate("dl")                                   # the scheduler answers with the network's outcome
        if o == "URLError":
            raise URLError("injected")
        if o == "TimeoutError":
            raise TimeoutError("injected")
        data = payload_of_url[url][o]
        with real_open(filename, "wb") as f:
            f.write(data[:len(data) // 2])
            f.flush()
            ch.gate("dlmid")
            f.write(data[len(data) // 2:])
        return filename, None

    def sleep(_s):
        ch.gate("retry")

    def makedirs(*a, **kw):
        ch.gate("mkdir")
        return os.makedirs(*a, **kw)

    def rename(*a, **kw):
        ch.gate("rename")
        return os.rename(*a, **kw)

    def replace(*a, **kw):
        ch.gate("rename")
        return os.replace(*a, **kw)

    class GatedWriter:
        """The file object handed to the loader for a write: closing it - explicitly, by leaving a with-block or
        by dropping the last reference - is a step boundary ("dumpclose"), because only the close puts the buffered
        tail of the pickle on the disk.  A SIGKILL at that boundary leaves what really is on the disk."""

        def __init__(self, f):
            self.__dict__["_f"] = f
            self.__dict__["_gated"] = False

        def __getattr__(self, k):
            return getattr(self._f, k)

        def close(self):
            if not self._gated:
                self.__dict__["_gated"] = True
                if not self._f.closed:
                    ch.gate("dumpclose")
            return self._f.close()

        def __enter__(self):
            return self

        def __exit__(self, *exc):
            self.close()
            return False

        def __del__(self):
            try:
                self.close()
            except Exception:  # noqa
                pass

        def __iter__(self):
            return iter(self._f)

    def gopen(file, mode="r", *a, **kw):
        if isinstance(file, (str, bytes, os.PathLike)):
            if any(c in mode for c in "wax+"):
                ch.gate("dump")
                return GatedWriter(real_open(file, mode, *a, **kw))
            elif not quiet[0]:                     # (the checksum routine reads the download: not a boundary)
                ch.gate("read")
        return real_open(file, mode, *a, **kw)

    def dump(obj, f, *a, **kw):
        data = pickle.dumps(obj, *a, **kw)
        f.write(data[:len(data) // 2])
        f.flush()
        ch.gate("dumpmid")
        f.write(data[len(data) // 2:])
        # no flush here: getting the second half onto the disk (close / flush before the rename) is the loader's job

    def loadtxt(*a, **kw):
        ch.gate("parse")
        return np.loadtxt(*a, **kw)

    real_sha = base._sha256

    quiet = [False]

    def sha(p):
        ch.gate("verify")
        quiet[0] = True
        try:
            return real_sha(p)
        finally:
            quiet[0] = False

    class GatedTD(_RealTD):
        def cleanup(self):
            ch.gate("cleanup")
            return super().cleanup()

    # Publishing by COPY instead of rename (shutil.move across file systems, shutil.copy*): the destination is opened, truncated
    # and filled gradually.  shutil's own copy routine (this forked process's private copy of the module) is split like the
    # download and the pickle: "copy" before the destination is touched, "copymid" when half of the bytes are there
    # (seed C19l: staging in the system temp dir + shutil.move; only a data home on another file system shows it).
    def copyfile(src, dst, *a, **kw):
        ch.gate("copy")
        with real_open(src, "rb") as fi:
            data = fi.read()
        with real_open(dst, "wb") as fo:
            fo.write(data[:len(data) // 2])
            fo.flush()
            ch.gate("copymid")
            fo.write(data[len(data) // 2:])
        return dst
    shutil.copyfile = copyfile

    base.urlretrieve = urlretrieve
    base.time = _Proxy(_time, sleep=sleep)
    base.os = _Proxy(os, makedirs=makedirs, rename=rename, replace=replace)
    base.open = gopen
    base.pickle = _Proxy(pickle, dump=dump)
    base.np = _Proxy(np, loadtxt=loadtxt)
    base._sha256 = sha
    base.TemporaryDirectory = GatedTD


def _child(ch, ds, cfg, data_home, payload_of_url):
    warnings.simplefilter("ignore")
    install_gates(ch, payload_of_url)
    ch.gate("start")
    try:
        out = base.load_csv_dataset_from_remote(
            remote=ds.remote(), dataset_filename=ds.slot, dataset_folder=FOLDER, data_home=data_home,
            download_if_missing=cfg["dim"], download_even_if_available=cfg["force"],
            validate_checksum=cfg["val"], n_retries=cfg["nret"], delay=0, gzip=ds.gz)
        res = {"k": "data", "digest": array_digest(out)}
    except BaseException as ex:  # noqa
        res = {"k": "exc", "cls": classify_exc(ex), "msg": str(ex)[:120]}
    ch.gate("ret")
    ch.final(res)


class Loader:
    def __init__(self, name, cfg):
        self.name, self.cfg = name, cfg
        self.pid = self.up_r = self.down_w = None
        self.state = "new"           # gate name | done | crashed | died
        self.result = None
        self.tmpdir = None
        self.buf = b""

    @property
    def live(self):
        return self.state not in ("done", "crashed", "died", "new")


# --------------------------------------------------------------------------------------------------------
# the scheduler
# --------------------------------------------------------------------------------------------------------
_OTHER_FS = []


def other_fs():
    """Is /dev/shm usable and on another file system than the system temp dir?  (Where it is not, nothing is claimed.)"""
    if not _OTHER_FS:
        import tempfile
        try:
            _OTHER_FS.append(bool(os.path.isdir("/dev/shm") and os.access("/dev/shm", os.W_OK)
                                  and os.stat("/dev/shm").st_dev != os.stat(tempfile.gettempdir()).st_dev))
        except OSError:
            _OTHER_FS.append(False)
    return _OTHER_FS[0]


class Scheduler:
    """One trace: a scratch data home, the network table, the loaders, the recorded events."""

    def __init__(self, root, tid, datasets, gz=False):
        self.tid = tid
        self.home = os.path.join(root, "t%d" % tid)
        if tid % 5 == 0 and other_fs():      # every fifth data home lives on another file system than the system temp dir
            self.home = os.path.join("/dev/shm", "verif-c19-%d-t%d" % (os.getpid(), tid))
        self.folder = os.path.join(self.home, FOLDER)
        os.makedirs(self.folder, exist_ok=True)
        self.ds = {d: FakeDataset(d, i + 1, gz) for i, d in enumerate(sorted(datasets))}
        self.payload_of_url = {x.url: x.payload for x in self.ds.values()}
        self.net = {d: [] for d in self.ds}
        self.loaders = {}
        self.events = []
        self.known_tmp = set()

    # ---- processes -------------------------------------------------------------------------------------
    def spawn(self, name, cfg):
        L = Loader(name, cfg)
        up_r, up_w = os.pipe()
        down_r, down_w = os.pipe()
        sys.stdout.flush()
        sys.stderr.flush()
        pid = os.fork()
        if pid == 0:
            try:
                os.close(up_r)
                os.close(down_w)
                for o in self.loaders.values():          # do not keep the siblings' pipes open
                    for fd in (o.up_r, o.down_w):
                        if fd is not None:
                            os.close(fd)
                _child(_Chan(up_w, down_r), self.ds[cfg["d"]], cfg, self.home, self.payload_of_url)
            except BaseException:  # noqa  (a failure of the harness itself; the scheduler sees "died")
                import traceback
                traceback.print_exc()
            finally:
                os._exit(0)
        os.close(up_w)
        os.close(down_r)
        L.pid, L.up_r, L.down_w = pid, up_r, down_w
        self.loaders[name] = L
        self._await(L)
        return L

    def _await(self, L):
        """Block until the child reports its next boundary or its result, or is gone."""
        while b"\n" not in L.buf:
            c = os.read(L.up_r, 65536)
            if not c:
                self._reap(L)
                L.state = "died"
                return
            L.buf += c
        line, L.buf = L.buf.split(b"\n", 1)
        msg = line.decode()
        if msg.startswith("done "):
            L.result = json.loads(msg[5:])
            self._reap(L)
            L.state = "done"
        else:
            L.state = msg

    def _reap(self, L):
        try:
            os.waitpid(L.pid, 0)
        except ChildProcessError:
            pass
        for fd in (L.up_r, L.down_w):
            try:
                os.close(fd)
            except (OSError, TypeError):
                pass
        L.up_r = L.down_w = None

    def grant(self, L, outcome=""):
        os.write(L.down_w, ("go %s\n" % outcome).encode())
        self._await(L)

    def kill(self, L):
        os.kill(L.pid, signal.SIGKILL)
        self._reap(L)
        L.state = "crashed"

    # ---- observation -----------------------------------------------------------------------------------
    def _classify_pickle(self, path):
        try:
            with open(path, "rb") as f:
                b = f.read()
        except FileNotFoundError:
            return ["absent", "", ""]
        except OSError:
            return ["partial", "", ""]
        for d, x in self.ds.items():
            for k in ("good", "bad"):
                if b == x.pickled[k]:
                    return ["data", d, k]
        try:
            a = pickle.loads(b)
            dg = array_digest(a)
            for d, x in self.ds.items():
                for k in ("good", "bad"):
                    if dg == x.digest[k]:
                        return ["data", d, k]
        except Exception:
            pass
        return ["partial", "", ""]

    def _classify_download(self, path, ds):
        try:
            with open(path, "rb") as f:
                b = f.read()
        except OSError:
            return "absent"
        for o, k in (("ok", "good"), ("corrupt", "bad"), ("truncated", "trunc")):
            if b == ds.payload[o]:
                return k
        return "partial"

    def observe(self):
        slots = {d: self._classify_pickle(os.path.join(self.folder, x.slot)) for d, x in self.ds.items()}
        tmp = {}
        for n, L in self.loaders.items():
            if L.tmpdir is None or not os.path.isdir(L.tmpdir):
                tmp[n] = [0, "absent", "absent"]
            else:
                x = self.ds[L.cfg["d"]]
                pk = self._classify_pickle(os.path.join(L.tmpdir, x.slot))
                tmp[n] = [1, self._classify_download(os.path.join(L.tmpdir, x.remote_filename), x),
                          pk[2] if pk[0] == "data" else pk[0]]
        extra = [e for e in self._listing() if e not in self.known_tmp]
        return slots, tmp, len(extra)

    def _listing(self):
        slots = {x.slot for x in self.ds.values()}
        try:
            return sorted(e for e in os.listdir(self.folder) if e not in slots)
        except OSError:
            return []

    def result_of(self, L):
        if L.state != "done" or L.result is None:
            return ["none", "", ""]
        r = L.result
        if r["k"] == "exc":
            return ["exc", r["cls"], ""]
        for d, x in self.ds.items():
            for k in ("good", "bad"):
                if r["digest"] == x.digest[k]:
                    return ["data", d, k]
        return ["data", "?", "other"]

    def record(self, kind, L, gate="", outcome="", **more):
        slots, tmp, extra = self.observe()
        ev = {"fn": "cache", "tid": self.tid, "k": kind, "p": L.name if L else "", "g": gate, "o": outcome,
              "pc": L.state if L else "", "s": slots, "t": tmp, "x": extra,
              "r": self.result_of(L) if L else ["none", "", ""]}
        ev.update(more)
        self.events.append(ev)
        return ev

    # ---- steps -----------------------------------------------------------------------------------------
    def pop_net(self, d):
        return self.net[d].pop(0) if self.net[d] else "ok"

    def step(self, L):
        """Grant exactly one step to a live loader and record what can be seen afterwards."""
        gate = L.state
        outcome = self.pop_net(L.cfg["d"]) if gate == "dl" else ""
        before = set(self._listing())
        self.grant(L, outcome)
        if L.tmpdir is None:
            new = [e for e in self._listing() if e not in before and os.path.isdir(os.path.join(self.folder, e))]
            if new:
                L.tmpdir = os.path.join(self.folder, new[0])
                self.known_tmp.add(new[0])
        return self.record("step", L, gate=gate, outcome=outcome)

    def crash(self, L):
        gate = L.state
        self.kill(L)
        return self.record("crash", L, gate=gate)

    def drain(self, names=None):
        for n in sorted(self.loaders if names is None else names):
            L = self.loaders[n]
            guard = 0
            while L.live:
                self.step(L)
                guard += 1
                if guard > 400:
                    self.kill(L)
                    raise MachineryError("loader %s does not terminate (trace %d)" % (n, self.tid))

    def start_probe(self, name, d, nret=3):
        self.drain()
        self.net[d] = []
        cfg = {"d": d, "dim": True, "force": False, "val": True, "nret": nret}
        L = self.spawn(name, cfg)
        self.record("probe", L, d=d)
        return L

    def close(self):
        for L in self.loaders.values():
            if L.live:
                self.kill(L)
        shutil.rmtree(self.home, ignore_errors=True)


def default_cfg(d, nret=3):
    return {"d": d, "dim": True, "force": False, "val": True, "nret": nret}


def replay_behaviour(beh, root):
    """beh = {tid, cfg: {p: {d, dim, force, val, nret}}, slot: {d: file triple}, net: {d: [outcomes]},
              steps: [[action, process, arg], ...], gz: bool, src: str}
    -> list of events (header first).  The schedule is the model's; what happens is the code's."""
    datasets = sorted(beh["slot"])
    sch = Scheduler(root, beh["tid"], datasets, gz=beh.get("gz", False))
    try:
        for d, v in beh["slot"].items():
            if v[0] == "data":
                with open(os.path.join(sch.folder, sch.ds[d].slot), "wb") as f:
                    f.write(sch.ds[v[1]].pickled[v[2]])
            elif v[0] == "partial":
                with open(os.path.join(sch.folder, sch.ds[d].slot), "wb") as f:
                    f.write(sch.ds[d].pickled["good"][:40])
        for d, seq in beh["net"].items():
            sch.net[d] = list(seq)
        procs = {p: c for p, c in beh["cfg"].items() if not p.startswith("q")}
        slots0, _, _ = sch.observe()
        sch.events.append({"fn": "cache", "tid": beh["tid"], "k": "init", "cfg": procs, "s": slots0,
                           "net": {d: list(v) for d, v in sch.net.items()}})
        for p in sorted(procs):
            sch.spawn(p, procs[p])
        probed = set()

        def fresh_probe():
            k = 1
            while "q%d" % k in sch.loaders:
                k += 1
            return "q%d" % k

        for name, p, arg in beh["steps"]:
            if name == "ProbeStart":
                if arg not in probed and p not in sch.loaders:
                    sch.start_probe(p, arg)
                    probed.add(arg)
                continue
            L = sch.loaders.get(p)
            if L is None or not L.live:
                continue
            if name == "Crash":
                if not p.startswith("q"):
                    sch.crash(L)
            else:
                sch.step(L)
        sch.drain()
        for d in datasets:                      # every trace ends with a later load of every dataset
            if d not in probed:
                sch.start_probe(fresh_probe(), d)
                probed.add(d)
            sch.drain()
        return sch.events
    finally:
        sch.close()


# --------------------------------------------------------------------------------------------------------
# TLC trace validation of recorded traces (Trace_Cache.tla): whole traces are kept together
# --------------------------------------------------------------------------------------------------------
def trace_cfg(procs, probes, datasets):
    q = lambda xs: "{" + ", ".join('"%s"' % x for x in sorted(xs)) + "}"
    return ("INIT TraceInit\nNEXT TraceNext\nCONSTANTS\n  Procs = %s\n  Probes = %s\n  Datasets = %s\n"
            "  NRetries = 0\n  ProbeRetries = 3\n  UrlOf <- IdMap\n  SlotOf <- IdMap\n"
            "INVARIANT Judge\nCHECK_DEADLOCK FALSE\n" % (q(procs), q(probes), q(datasets)))


_RE_VERDICT = re.compile(r'<<\s*"V",\s*(\d+),\s*\{([^}]*)\}\s*>>', re.S)


def _validate_part(scratch, part, events, trace_module, cfg, workers, timeout, tag):
    """As vlib._validate_part, but verdict tuples that TLC's pretty printer wrapped over several lines are read too."""
    path = scratch.path("%s-trace-%d.json" % (tag, part))
    with open(path, "w") as f:
        json.dump(events, f, separators=(",", ":"))
    wd = scratch.path("%s-part%d" % (tag, part))
    os.makedirs(wd, exist_ok=True)
    cfgp = os.path.join(wd, "trace.cfg")
    with open(cfgp, "w") as f:
        f.write(cfg)
    shutil.copy(os.path.join(vlib.SPEC, "trace", trace_module + ".tla"), os.path.join(wd, trace_module + ".tla"))
    r = vlib.run_tlc(wd, trace_module, cfgp, workers=workers, timeout=timeout, env={"TRACE_FILE": path}, heap="3g")
    if r.error or r.violated or r.rc != 0:
        raise MachineryError("trace validation (%s): rc=%s violated=%s %s\n%s" % (
            trace_module, r.rc, r.violated, r.error, r.stdout[-3000:]))
    verdicts = {}
    for m in _RE_VERDICT.finditer(r.stdout):
        verdicts[int(m.group(1))] = sorted(re.findall(r'"([^"]*)"', m.group(2)))
    n = len(events)
    if len(verdicts) != n or r.distinct != n + 1:
        raise MachineryError("trace validation (%s): %d events, %d verdicts, %d states" % (
            trace_module, n, len(verdicts), r.distinct))
    return verdicts, r


def validate_traces(scratch, events, trace_module="Trace_Cache", cfg=None, workers=NCPU, timeout=3600, tag="tr",
                    per_part=4000):
    """Same contract as vlib.validate_events ({event id: [failing clauses]}, stats), but events of one trace
    (init event ... next init event) are never separated."""
    agg = TLCResult()
    if not events:
        return {}, agg
    for i, e in enumerate(events):
        e["id"] = i + 1
    traces = []
    for e in events:
        if e.get("k") == "init":
            traces.append([])
        if not traces:
            raise MachineryError("trace events do not start with an init event")
        traces[-1].append(e)
    t0 = _time.time()
    nparts = max(1, min(workers, (len(events) + per_part - 1) // per_part, len(traces)))
    parts = [[] for _ in range(nparts)]
    sizes = [0] * nparts
    for tr in sorted(traces, key=len, reverse=True):       # longest first onto the lightest part
        k = sizes.index(min(sizes))
        parts[k].extend(tr)
        sizes[k] += len(tr)
    w = max(1, workers // nparts)

    def one(k):
        part = parts[k]
        procs, probes, dss = {"p1"}, {"q1"}, {"d1"}
        for e in part:
            if e.get("k") == "init":
                procs.update(e["cfg"])
                dss.update(e["s"])
            elif str(e.get("p", "")).startswith("q"):
                probes.add(e["p"])
        return _validate_part(scratch, k, part, trace_module, cfg or trace_cfg(procs, probes, dss), w, timeout, tag)

    from concurrent.futures import ThreadPoolExecutor
    with ThreadPoolExecutor(nparts) as ex:
        res = list(ex.map(one, range(nparts)))
    verdicts = {}
    for v, r in res:
        verdicts.update(v)
        agg.distinct += r.distinct
        agg.generated += r.generated
    agg.wall = _time.time() - t0
    if len(verdicts) != len(events):
        raise MachineryError("trace validation: %d events, %d verdicts" % (len(events), len(verdicts)))
    return verdicts, agg


# --------------------------------------------------------------------------------------------------------
# behaviours from the labelled state graph that TLC dumped (MC_Cache: EmitInit / EmitEdge)
# --------------------------------------------------------------------------------------------------------
class Graph:
    def __init__(self, json_lines, generated=None):
        self.inits = {}
        self.adj = {}
        self.nedges = 0
        for j in json_lines:
            if j.get("k") == "init":
                self.inits[tuple(j["id"])] = j
            elif j.get("k") == "edge":
                self.adj.setdefault(tuple(j["f"]), []).append((tuple(j["a"]), tuple(j["t"])))
                self.nedges += 1
        if not self.inits or not self.nedges:
            raise MachineryError("TLC emitted no state graph (%d inits, %d edges)" % (len(self.inits), self.nedges))
        if generated is not None and generated != len(self.inits) + self.nedges:      # torn / lost output lines
            raise MachineryError("state graph dump incomplete: TLC generated %d states, %d initial states + %d edges read"
                                 % (generated, len(self.inits), self.nedges))
        for k in self.adj:
            self.adj[k].sort()
        self.crash_points = {a[2] for es in self.adj.values() for a, _ in es if a[0] == "Crash"}
        self.labels = {a[0] for es in self.adj.values() for a, _ in es}
        self.parent = {}                       # BFS tree: node -> (parent node, action, root)
        dq = deque()
        for i in sorted(self.inits):
            self.parent[i] = (None, None, i)
            dq.append(i)
        while dq:
            u = dq.popleft()
            for a, v in self.adj.get(u, ()):
                if v not in self.parent:
                    self.parent[v] = (u, a, self.parent[u][2])
                    dq.append(v)
        self.order = list(self.parent)

    def path_to(self, u):
        acts = []
        root = self.parent[u][2]
        while self.parent[u][0] is not None:
            p, a, _ = self.parent[u]
            acts.append(a)
            u = p
        acts.reverse()
        return root, acts

    def behaviour(self, root, acts, tid, gz=False, src=""):
        j = self.inits[root]
        return {"tid": tid, "cfg": j["cfg"], "slot": j["slot"], "net": j["net"], "steps": [list(a) for a in acts],
                "gz": gz, "src": src}

    def cover(self, rng=None, limit=None):
        """Walks from initial states such that every edge lies on at least one of them (transition cover).
        With a limit, a seeded random subset of the uncovered edges is served first-come."""
        covered = set()
        walks = []
        nodes = list(self.order)
        if rng is not None and limit is not None:
            rng.shuffle(nodes)
        for u in nodes:
            for k, (a, v) in enumerate(self.adj.get(u, ())):
                if (u, k) in covered:
                    continue
                root, acts = self.path_to(u)
                # mark the tree path as covered as well (it is executed)
                x = u
                while self.parent[x][0] is not None:
                    px, pa, _ = self.parent[x]
                    for kk, (aa, vv) in enumerate(self.adj[px]):
                        if aa == pa and vv == x:
                            covered.add((px, kk))
                            break
                    x = px
                cur, kk = u, k
                while True:
                    covered.add((cur, kk))
                    aa, vv = self.adj[cur][kk]
                    acts.append(aa)
                    cur = vv
                    nxt = [i for i in range(len(self.adj.get(cur, ()))) if (cur, i) not in covered]
                    if not nxt:
                        break
                    kk = nxt[0]
                walks.append((root, acts))
                if limit is not None and len(walks) >= limit:
                    return walks, len(covered)
        return walks, len(covered)

    def random_walks(self, rng, count, maxlen=200):
        roots = sorted(self.inits)
        out = []
        for _ in range(count):
            r = rng.choice(roots)
            cur, acts = r, []
            while len(acts) < maxlen and self.adj.get(cur):
                a, v = rng.choice(self.adj[cur])
                acts.append(a)
                cur = v
            out.append((r, acts))
        return out


# --------------------------------------------------------------------------------------------------------
# parallel replay
# --------------------------------------------------------------------------------------------------------
_ROOT = None


def _replay_one(beh):
    try:
        if "pair" in beh:
            return pair_trace(beh, _ROOT)
        return replay_behaviour(beh, _ROOT)
    except MachineryError as ex:
        return {"machinery": str(ex)}
    except Exception as ex:  # noqa
        import traceback
        return {"machinery": "%s: %s\n%s" % (type(ex).__name__, ex, traceback.format_exc())}


def _pool_init(root):
    global _ROOT
    _ROOT = root
    import gc
    gc.freeze()


class ReplayPool:
    """Worker processes that fork the loaders.  Created BEFORE the check loads state graphs, so that the workers
    (and every loader forked from them) have a small address space: fork cost is proportional to it."""

    def __init__(self, root, procs=NCPU):
        import multiprocessing as mp
        self.root = root
        self.pool = mp.get_context("fork").Pool(procs, initializer=_pool_init, initargs=(root,))

    def replay(self, behs, chunksize=8):
        out = self.pool.map(_replay_one, list(behs), chunksize=chunksize)
        for o in out:
            if isinstance(o, dict):
                raise MachineryError("replay failed: " + o["machinery"])
        return out

    def close(self):
        self.pool.close()
        self.pool.join()


def replay_all(behs, root, procs=NCPU, chunksize=8):
    """Replay every behaviour (each in its own data home under root); returns the list of event lists."""
    global _ROOT
    _ROOT = root
    behs = list(behs)
    if procs <= 1 or len(behs) < 8:
        out = [_replay_one(b) for b in behs]
    else:
        rp = ReplayPool(root, procs)
        try:
            return rp.replay(behs, chunksize)
        finally:
            rp.close()
    for o in out:
        if isinstance(o, dict):
            raise MachineryError("replay failed: " + o["machinery"])
    return out


# --------------------------------------------------------------------------------------------------------
# several bounded instances side by side (each TLC in its own working directory)
# --------------------------------------------------------------------------------------------------------
def run_models(check, jobs, parallel=4):
    """jobs: list of dicts {module, cfg, modules: [files to copy from spec/mc], coverage, require_actions, simulate,
    depth, workers, timeout}.  Same bookkeeping and the same rules as driver.Check.model (a counterexample or an
    error on the model itself is a machinery error; vacuity guard on the coverage counts)."""
    from concurrent.futures import ThreadPoolExecutor

    def one(k):
        j = jobs[k]
        wd = check.scratch.path("model-%d" % k)
        os.makedirs(wd, exist_ok=True)
        for m in j.get("modules", [j["module"]]):
            shutil.copy(os.path.join(vlib.SPEC, "mc", m + ".tla"), os.path.join(wd, m + ".tla"))
        for extra in j.get("files", []):
            shutil.copy(extra, wd)
        cfgp = j["cfg"] if os.path.isabs(j["cfg"]) else os.path.join(vlib.SPEC, "mc", j["cfg"])
        r = vlib.run_tlc(wd, j["module"], cfgp, workers=j.get("workers", max(2, NCPU // 2)), timeout=j.get("timeout", 3000),
                         coverage=j.get("coverage", False), simulate=j.get("simulate"), depth=j.get("depth"),
                         seed=check.seed if j.get("simulate") else None, heap=j.get("heap", "6g"),
                         env=j.get("env"), extra=j.get("extra"))
        return r

    with ThreadPoolExecutor(parallel) as ex:
        results = list(ex.map(one, range(len(jobs))))
    for j, r in zip(jobs, results):
        if not j.get("allow_violation"):
            vlib.tlc_ok(r, "%s/%s" % (j["module"], os.path.basename(j["cfg"])))
        check.states += r.distinct
        check.transitions += r.generated
        check.model_runs.append({"module": j["module"], "cfg": os.path.basename(j["cfg"]), "distinct_states": r.distinct,
                                 "states_generated": r.generated, "depth": r.depth, "wall_s": round(r.wall, 1),
                                 "emitted": len(r.json_lines), "violated": r.violated})
        for a in j.get("require_actions", ()):
            if r.coverage.get(a, 0) == 0:
                raise MachineryError("vacuous: action %s never taken in %s/%s" % (a, j["module"], j["cfg"]))
    return results


# --------------------------------------------------------------------------------------------------------
# independent events judged in ONE TLC run (clauses may compare an event with the others): C18
# --------------------------------------------------------------------------------------------------------
def validate_independent(scratch, events, trace_module="Trace_Registry", cfg=None, workers=NCPU, timeout=3600, tag="ev",
                         per_part=None):
    agg = TLCResult()
    if not events:
        return {}, agg
    for i, e in enumerate(events):
        e["id"] = i + 1
    n = len(events)
    path = scratch.path("%s-trace.json" % tag)
    with open(path, "w") as f:
        json.dump(events, f, separators=(",", ":"))
    wd = scratch.path("%s-judge" % tag)
    os.makedirs(wd, exist_ok=True)
    cfgp = os.path.join(wd, "trace.cfg")
    with open(cfgp, "w") as f:
        f.write(cfg or "INIT TraceInit\nNEXT TraceNext\nINVARIANT Judge\nCHECK_DEADLOCK FALSE\n")
    shutil.copy(os.path.join(vlib.SPEC, "trace", trace_module + ".tla"), os.path.join(wd, trace_module + ".tla"))
    chunk = max(1, (n + 2 * workers - 1) // (2 * workers))
    r = vlib.run_tlc(wd, trace_module, cfgp, workers=workers, timeout=timeout,
                     env={"TRACE_FILE": path, "TRACE_CHUNK": str(chunk)}, heap="3g")
    if r.error or r.violated or r.rc != 0:
        raise MachineryError("trace validation (%s): rc=%s violated=%s %s\n%s" % (
            trace_module, r.rc, r.violated, r.error, r.stdout[-3000:]))
    verdicts = {}
    for m in _RE_VERDICT.finditer(r.stdout):
        verdicts[int(m.group(1))] = sorted(re.findall(r'"([^"]*)"', m.group(2)))
    if len(verdicts) != n or r.distinct != n + 1:
        raise MachineryError("trace validation (%s): %d events, %d verdicts, %d states" % (
            trace_module, n, len(verdicts), r.distinct))
    agg.distinct, agg.generated, agg.wall = r.distinct, r.generated, r.wall
    return verdicts, agg


# --------------------------------------------------------------------------------------------------------
# registry level (C18, and the ordered pairs of C19): documented names, what load_dataset(name) does with the
# loaders stubbed, and real load_dataset calls against a fake network
# --------------------------------------------------------------------------------------------------------
import glob                                        # noqa: E402
from fractions import Fraction                     # noqa: E402
import traffic_weaver.datasets as twd              # noqa: E402
from vlib import REPO, fxs                         # noqa: E402

DESC_DIR = os.path.join(REPO, "src", "traffic_weaver", "datasets", "data_description")
DATA_DIR = os.path.join(REPO, "src", "traffic_weaver", "datasets", "data")
EMPTY_CALL = {"resolves": False, "loader": "none", "url": "", "checksum": "", "remoteFile": "", "folder": "", "slot": "",
              "gzip": False, "validate": False, "file": ""}


# --------------------------------------------------------------------------------------------------------
# registry extraction
# --------------------------------------------------------------------------------------------------------
def documented_names():
    out = []
    for p in sorted(glob.glob(os.path.join(DESC_DIR, "*.md"))):
        kind = "bundled" if os.path.basename(p).startswith("sandvine") else "remote"
        for line in open(p, encoding="utf-8"):
            m = re.match(r"^\|\s*(\d+)\s*\|\s*([^|\s][^|]*?)\s*\|", line)
            if m:
                out.append((m.group(2), kind, os.path.basename(p)))
    return out


def dataset_modules():
    return [m for n, m in list(sys.modules.items()) if n.startswith("traffic_weaver.datasets") and m is not None]


def capture_call(name):
    """What load_dataset(name) does, with the remote loader and the resource loader stubbed."""
    rec = dict(EMPTY_CALL)

    def stub_remote(remote=None, dataset_filename=None, dataset_folder=None, data_home=None, download_if_missing=True,
                    download_even_if_available=False, validate_checksum=True, n_retries=3, delay=1.0, gzip=False,
                    unpack_dataset_columns=False, **kw):
        rec.update(resolves=True, loader="remote", url=str(getattr(remote, "url", "")),
                   checksum=str(getattr(remote, "checksum", "")), remoteFile=str(getattr(remote, "filename", "")),
                   folder=str(dataset_folder), slot=str(dataset_filename), gzip=bool(gzip), validate=bool(validate_checksum))
        return None

    def stub_resources(file_name=None, *a, **kw):
        rec.update(resolves=True, loader="resources", file=str(file_name).replace(os.sep, "/"))
        return None

    saved = []
    for m in dataset_modules():
        for attr, stub in (("load_csv_dataset_from_remote", stub_remote), ("load_csv_dataset_from_resources", stub_resources)):
            if hasattr(m, attr):
                saved.append((m, attr, getattr(m, attr)))
                setattr(m, attr, stub)
    try:
        base.load_dataset(name)
    except ValueError:
        pass
    except Exception as ex:  # noqa
        rec["loader"] = "error:" + type(ex).__name__
    finally:
        for m, attr, old in saved:
            setattr(m, attr, old)
    return rec


def variants_of(name):
    vs = []
    for v in (name.replace("-", "_"), name.replace("_", "-")):
        if v != name and v not in vs:
            vs.append(v)
    return vs


def extract_registry():
    reg = []
    for name, kind, src in documented_names():
        reg.append({"name": name, "kind": kind, "table": src, "call": capture_call(name),
                    "variants": [{"name": v, "call": capture_call(v)} for v in variants_of(name)]})
    return reg


def tla(v):
    """Python value -> TLA+ literal (records, sequences, strings, booleans)."""
    if isinstance(v, bool):
        return "TRUE" if v else "FALSE"
    if isinstance(v, str):
        return '"' + v.replace("\\", "\\\\").replace('"', '\\"') + '"'
    if isinstance(v, int):
        return str(v)
    if isinstance(v, (list, tuple)):
        return "<<" + ", ".join(tla(x) for x in v) + ">>"
    if isinstance(v, dict):
        return "[" + ", ".join("%s |-> %s" % (k, tla(x)) for k, x in v.items()) + "]"
    raise MachineryError("cannot write %r as a TLA+ value" % (v,))


def registry_module(registry, live):
    """The generated module RegistryData.tla."""
    recs = [{k: r[k] for k in ("name", "kind", "call", "variants")} for r in registry]
    by = {r["name"]: r["call"] for r in registry}
    fn = lambda f: ("[d \\in RegDatasets |-> CASE " + "\n      [] ".join('d = %s -> %s' % (tla(n), tla(f(by[n]))) for n in live)
                    + "]") if live else "<<>>"
    return ("---- MODULE RegistryData ----\n\\* generated by harness/c18.py from the working tree; do not edit\n"
            "RegistryData == <<\n  " + ",\n  ".join(tla(r) for r in recs) + "\n>>\n"
            "RegDatasets == {" + ", ".join(tla(n) for n in live) + "}\n"
            "RegUrlOf == " + fn(lambda c: c["url"]) + "\n"
            "RegSlotOf == " + fn(lambda c: c["folder"] + "/" + c["slot"]) + "\n====\n")


# --------------------------------------------------------------------------------------------------------
# real loads with a fake network
# --------------------------------------------------------------------------------------------------------
class World:
    """Genuine payload per remote dataset; url -> payload; pinned checksum per url (for the _sha256 table)."""

    def __init__(self, registry):
        self.registry = registry
        self.payload = {}
        self.url_payload = {}
        self.pinned = {}
        self.digest = {}
        for i, r in enumerate(registry):
            c = r["call"]
            if r["kind"] != "remote":
                continue
            rows = [(k, i + 1 + k / 8.0) for k in range(6)]
            data = "".join("%d,%.3f\n" % x for x in rows).encode()
            self.payload[r["name"]] = data
            arr = np.loadtxt(io.BytesIO(data), delimiter=",", dtype=np.float64)
            self.digest[array_digest(arr)] = r["name"]
            if c["resolves"] and c["loader"] == "remote":
                self.url_payload.setdefault(c["url"], data)          # the first documented owner of a URL
                self.pinned.setdefault(c["url"], c["checksum"])


WORLD = None
REAL_SHA = base._sha256


def classify_return(out):
    try:
        if isinstance(out, tuple) and len(out) == 2:
            a = np.column_stack([np.asarray(out[0]), np.asarray(out[1])])
            return ["pair", WORLD.digest.get(array_digest(a), "")]
        if isinstance(out, np.ndarray):
            return ["array", WORLD.digest.get(array_digest(out), "")]
    except Exception:
        pass
    return ["other", ""]


def listing(root):
    out = []
    for d, _, fs in os.walk(root):
        for f in fs:
            out.append(os.path.relpath(os.path.join(d, f), root))
    return sorted(out)


def one_load(name, canon, doc, unpack, mode, home, fake_home, foreign=None, prev=""):
    urls, dlnames = [], []

    def urlretrieve(url, filename=None, *a, **kw):
        urls.append(url)
        dlnames.append(os.path.basename(str(filename)))
        data = WORLD.payload[foreign] if foreign else WORLD.url_payload.get(url)
        if data is None:
            raise URLError("no such url in the fake network")
        with open(filename, "wb") as f:
            f.write(data)
        return filename, None

    def sha(path):
        with open(path, "rb") as f:
            b = f.read()
        for u, data in WORLD.url_payload.items():
            if b == data:
                return WORLD.pinned[u]             # the designated genuine payload of u has u's pinned checksum
        return REAL_SHA(path)

    saved = (base.urlretrieve, base._sha256, base.time)
    base.urlretrieve, base._sha256, base.time = urlretrieve, sha, _Proxy(_time, sleep=lambda s: None)
    # the variable names the directory in one of several legal spellings (plain, trailing separator, a '.' component, a doubled
    # separator): all of them are the same directory (seed C18k: a containment check against the raw, non-normalised value)
    hd, hb = os.path.dirname(home), os.path.basename(home)
    os.environ["TRAFFIC_WEAVER_DATA"] = (home, home + os.sep, os.path.join(hd, ".", hb), hd + os.sep + os.sep + hb)[sum(map(ord, name)) % 4]
    os.environ["HOME"] = fake_home
    before = set(listing(home))
    default_home = os.path.join(fake_home, ".traffic-weaver-data")
    import warnings
    try:
        with warnings.catch_warnings():
            warnings.simplefilter("ignore")
            if mode == "after_edit":
                # the caller has loaded the same dataset before and overwritten what it got in place (it owns that array):
                # the next load must still hand out the data
                first = twd.load_dataset(name, unpack_dataset_columns=unpack)
                for part in (first if isinstance(first, tuple) else (first,)):
                    if isinstance(part, np.ndarray) and part.flags.writeable:
                        part[...] = -7.0
            # (the flag is a positional-or-keyword parameter: every other name passes it positionally)
            out = twd.load_dataset(name, unpack) if len(name) % 2 == 0 else twd.load_dataset(name, unpack_dataset_columns=unpack)
        outcome = "ok"
    except BaseException as ex:  # noqa
        out, outcome = None, classify_exc(ex)
    finally:
        base.urlretrieve, base._sha256, base.time = saved
    ev = {"fn": "load", "name": name, "canon": canon, "doc": doc, "unpack": bool(unpack), "mode": mode, "prev": prev, "neg": False,
          "outcome": outcome, "urls": urls, "dlnames": dlnames,
          "created": [p for p in listing(home) if p not in before], "home_ok": not os.path.exists(default_home),
          "ret": classify_return(out) if outcome == "ok" else ["other", ""]}
    if doc == "bundled":
        ev.update(bundled_fields(out, canon, unpack))
    return ev


def bundled_fields(out, canon, unpack):
    f = {"shape": [], "dtype": "", "x": [], "y": [], "csvx": [], "csvy": []}
    try:
        if unpack and isinstance(out, tuple) and len(out) == 2:
            x, y = np.asarray(out[0]), np.asarray(out[1])
            f["ret"] = ["pair", ""] if x.ndim == 1 and y.ndim == 1 else ["other", ""]
            arr = np.column_stack([x, y])
            f["dtype"] = str(x.dtype) if x.dtype == y.dtype else "mixed"
        elif isinstance(out, np.ndarray):
            arr = out
            f["ret"] = ["array", ""]
            f["dtype"] = str(arr.dtype)
        else:
            return f
        f["shape"] = [int(v) for v in arr.shape]
        if arr.ndim == 2 and arr.shape[1] == 2:
            f["x"], f["y"] = fxs(arr[:, 0]), fxs(arr[:, 1])
    except Exception:
        pass
    rec = next((r for r in WORLD.registry if r["name"] == canon), None)
    if rec and rec["call"]["file"]:
        try:
            for line in open(os.path.join(DATA_DIR, rec["call"]["file"])):
                if line.strip():
                    a, b = line.split(",")
                    fa, fb = Fraction(a.strip()), Fraction(b.strip())
                    f["csvx"].append([fa.numerator, fa.denominator])
                    f["csvy"].append([fb.numerator, fb.denominator])
        except Exception:
            f["csvx"], f["csvy"] = [], []
    return f




def pair_trace(beh, root):
    """C19, 'all orderings of loading two datasets among the remote ones': a then b through the real load_dataset
    (fake network, one shared data home), recorded in the vocabulary of Trace_Cache with whole calls as events."""
    a, b = beh["pair"]
    names = {"d1": a, "d2": b}
    whose = {a: "d1", b: "d2"}
    home = os.path.join(root, "t%d" % beh["tid"])
    fake_home = home + "-user"
    os.makedirs(home)
    os.makedirs(fake_home)
    recs = {r["name"]: r["call"] for r in WORLD.registry}

    def slots():
        out = {}
        for d, n in names.items():
            p = os.path.join(home, recs[n]["folder"], recs[n]["slot"])
            try:
                with open(p, "rb") as f:
                    arr = pickle.load(f)
                w = WORLD.digest.get(array_digest(arr), "")
                out[d] = ["data", whose[w], "good"] if w in whose else ["partial", "", ""]
            except FileNotFoundError:
                out[d] = ["absent", "", ""]
            except Exception:
                out[d] = ["partial", "", ""]
        return out

    try:
        evs = [{"fn": "cache", "tid": beh["tid"], "k": "init",
                "cfg": {"p1": default_cfg("d1"), "p2": default_cfg("d2"), "p3": default_cfg("d2")}, "s": slots(), "net": {"d1": [], "d2": []}}]
        # p3: the second dataset once more in the same process, after the caller has overwritten in place what an earlier
        # (cache-served) load handed out - "a later load returns exactly that data"
        for p, d in (("p1", "d1"), ("p2", "d2"), ("p3", "d2")):
            e = one_load(names[d], names[d], "remote", False, {"p1": "fresh", "p2": "after", "p3": "after_edit"}[p], home, fake_home)
            if e["outcome"] == "ok":
                w = e["ret"][1]
                r = ["data", whose.get(w, "?"), "good" if w in whose else "other"]
            else:
                r = ["exc", e["outcome"], ""]
            evs.append({"fn": "cache", "tid": beh["tid"], "k": "call", "p": p, "g": "start",
                        "o": "ok" if e["urls"] else "", "pc": "done", "s": slots(),
                        "t": {"p1": [0, "absent", "absent"], "p2": [0, "absent", "absent"], "p3": [0, "absent", "absent"]},
                        "x": max(0, len(e["urls"]) - 1), "r": r})
        return evs
    finally:
        shutil.rmtree(home, ignore_errors=True)
        shutil.rmtree(fake_home, ignore_errors=True)
