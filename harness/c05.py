"""C05 - window strategies never overshoot and keep a plateau at the average."""
from driver import main
from rfafam import run_rfa_check, random_rfa_case, ALL, bump


def extra(c):
    rng = c.rng
    out = []
    for _ in range(20000 if c.thorough else 2500):   # real alpha / beta / exponent / smoothing, tie-rich dyadic values
        out.append(random_rfa_case(rng, exact=False, strategies=ALL, mmax=8, nmax=rng.choice([8, 16, 64]),
                                   vals=tuple(range(-16, 17)), den=rng.choice([1, 8])))
    return out


def overshoot(e):
    # push the first transition sample of the second interval beyond the neighbouring average
    e["outy"][e["n"]] = [1, 99999999, 0]


main(lambda: run_rfa_check(
    "C05",
    "lattice: as C04 (MC_Rfa: the specification's own output satisfies bounds / plateau / monotone for every allowed window "
    "vector, then every behaviour is replayed); harness-originated: seeded random tie-rich series with alpha in k/64, explicit "
    "a in 0..n, beta in {0,1/4,1/2,3/4,1}, real exponents in (0,4] (incl. below 0.14), real adaptive smoothing in (0,3], n up to 64. "
    "Clauses are order / equality clauses evaluated by TLC directly on the recorded values: side-wise bounds, at most a-1 "
    "non-plateau samples nearest the borders, monotone runs, exact piecewise-constant, spline through the nodes, constant "
    "series stays constant. non-trivial = window strategy with >= 3 points, >= 2 distinct neighbouring averages; distinct by input",
    extra,
    [(lambda e: e["fn"] == "rfa" and e["outcome"] == "ok" and e["strategy"] == "LinearFixed" and len(e["x"]) >= 3 and e["n"] >= 3, overshoot, "C05.bounds"),
     (lambda e: e["fn"] == "rfa" and e["outcome"] == "ok" and e["strategy"] == "PiecewiseConstant", lambda e: bump(e, "outy", 0, 5), "C05.piecewise_exact"),
     (lambda e: e["fn"] == "rfa" and e["outcome"] == "ok" and e["strategy"] == "ExpFixed" and e["n"] >= 4 and (e["a"] == -1 or e["a"] <= 3),
      lambda e: [bump(e, "outy", i, 500) for i in range(1, e["n"])], "C05.plateau")],
    nontrivial=lambda e: e["fn"] == "rfa" and e["strategy"] in ("LinearFixed", "LinearAdaptive", "ExpFixed", "ExpAdaptive")
    and len(e["x"]) >= 3 and len(set(map(tuple, e["y"]))) > 1))
