"""Weaver histories: mapping of MC_Weaver emissions to executor cases and seeded random programs (driver only:
a light rational simulation of the abscissae is used to choose admissible arguments, never to judge)."""
import json
from fractions import Fraction

from fnexec import NONE, NONEINT


def R(v):
    f = Fraction(v)
    return [f.numerator, f.denominator]


def maximal_histories(json_lines):
    """Drop histories that are strict prefixes of another emitted history (every step of the longer one is observed)."""
    keys = {}
    for j in json_lines:
        keys[(json.dumps(j["start"], sort_keys=True), tuple(json.dumps(o, sort_keys=True) for o in j["hist"]))] = j
    prefixes = set()
    for (s, h) in keys:
        for k in range(1, len(h)):
            prefixes.add((s, h[:k]))
    return [j for key, j in keys.items() if key not in prefixes]


def from_emission(j):
    return {"fn": "whist", "start": {"x": j["start"]["x"], "y": j["start"]["y"]}, "ops": j["hist"]}


class XSim:
    def __init__(self, xs):
        self.x = list(xs)

    def apply(self, op):
        k, x = op["k"], self.x
        F = lambda r: Fraction(r[0], r[1])
        if k == "append":
            x.append(2 * x[-1] - x[-2])
        elif k == "shift_x":
            self.x = [v + F(op["v"]) for v in x]
        elif k == "scale_x":
            self.x = [v * F(op["v"]) for v in x]
        elif k == "normalize_x":
            lo, hi = F(op["lo"]), F(op["hi"])
            mn, mx = min(x), max(x)
            self.x = [(v - mn) / (mx - mn) * (hi - lo) + lo for v in x]
        elif k == "repeat":
            n, per = len(x), (x[-1] - x[0]) + (x[-1] - x[-2])
            self.x = [x[i % n] + (i // n) * per for i in range(n * op["r"])]
        elif k == "truncate_index":
            self.x = x[op["start"]:(None if op["stop"] == NONEINT else op["stop"])]
        elif k == "truncate_value":
            l, r = F(op["left"]), F(op["right"])
            span = x[-1] - x[0]
            if op["lr"]:
                l = l * span + x[0]
            if op["rr"]:
                r = r * span + x[0]
            lo = max([i for i, v in enumerate(x) if v <= l] or [0])
            hi = min([i for i, v in enumerate(x) if v >= r] or [len(x) - 1])
            self.x = x[lo:hi + 1]


def random_domain_op(rng, sim, maxlen=40):
    x = sim.x
    n = len(x)
    kinds = ["append", "shift_x", "shift_y", "scale_x", "scale_y", "normalize_x", "normalize_y", "repeat", "truncate_value", "truncate_index"]
    k = rng.choice(kinds)
    if k == "repeat" and n * 2 > maxlen:
        k = "shift_y"
    if k in ("truncate_value", "truncate_index") and n < 4:
        k = "append"
    if k == "append":
        return dict({"k": k, "periodic": rng.random() < 0.5}, **({"pflag": rng.choice(["np", "int"])} if rng.random() < 0.3 else {}))
    if k in ("shift_x", "shift_y"):
        return {"k": k, "v": R(Fraction(rng.randint(-12, 12), 2)), "as_int": rng.random() < 0.3}
    if k == "scale_x":
        return {"k": k, "v": R(rng.choice([Fraction(1, 2), 2, 3, Fraction(3, 2)])), "as_int": rng.random() < 0.3}
    if k == "scale_y":
        return {"k": k, "v": R(rng.choice([Fraction(1, 2), 2, 3, -1, -2])), "as_int": rng.random() < 0.3}
    if k in ("normalize_x", "normalize_y"):
        lo = rng.randint(-3, 3)
        if rng.random() < 0.25:      # a target range inside [0, 1]: abscissae that look like ratios of a span (seed C08j: a ratio bound
            return {"k": k, "lo": R(Fraction(3, 8)), "hi": R(Fraction(9, 16))}      # compared with the positions)
        return {"k": k, "lo": R(lo), "hi": R(lo + rng.randint(1, 4))}
    if k == "repeat":
        return {"k": k, "r": rng.randint(1, 3)}
    if k == "truncate_index":
        s = rng.randint(0, n - 3)
        e = rng.choice([NONEINT, rng.randint(s + 2, n)])
        return {"k": k, "start": s, "stop": e}
    i, j = sorted(rng.sample(range(n), 2))
    if rng.random() < 0.5 or (x[0] >= 0 and x[-1] <= 1 and rng.random() < 0.8):      # (abscissae that look like ratios: mostly ratio bounds)
        span = x[-1] - x[0]
        l = Fraction(rng.randint(0, 6), 16)
        r = Fraction(rng.randint(9, 16), 16)
        return {"k": k, "left": R(l), "right": R(r), "lr": True, "rr": True}
    if rng.random() < 0.35:
        # one bound as a ratio of the span, the other as a position (bounds chosen off the samples: no floating-point ties)
        span = x[-1] - x[0]
        if rng.random() < 0.5:
            return {"k": k, "left": R(Fraction(rng.choice([1, 3, 5]), 32)), "right": R(x[0] + span * Fraction(rng.choice([21, 25, 29]), 32)), "lr": True, "rr": False}
        return {"k": k, "left": R(x[0] + span * Fraction(rng.choice([1, 3, 5]), 32)), "right": R(Fraction(rng.choice([21, 25, 29]), 32)), "lr": False, "rr": True}
    d = Fraction(rng.choice([0, 0, 1]), 8) * (x[1] - x[0])
    return {"k": k, "left": R(x[i] + d), "right": R(x[j] + (x[j] - x[j - 1]) * Fraction(rng.choice([0, 0, -1]), 8)), "lr": False, "rr": False}


def random_reject_op(rng, sim):
    n = len(sim.x)
    x = sim.x
    return rng.choice([
        {"k": "truncate_value", "left": R(x[-1]), "right": R(x[0]), "lr": False, "rr": False},
        {"k": "truncate_value", "left": R(Fraction(3, 4)), "right": R(Fraction(1, 4)), "lr": True, "rr": True},
        {"k": "truncate_value", "left": R(x[0]), "right": R(x[0]), "lr": False, "rr": False},
        {"k": "truncate_index", "start": -1, "stop": n},
        {"k": "truncate_index", "start": 0, "stop": n + 1},
        {"k": "truncate_index", "start": rng.randint(1, max(1, n - 2)), "stop": n + rng.randint(1, 5)},
        {"k": "slice_index", "start": rng.randint(1, max(1, n - 2)), "stop": n + 1},
        {"k": "slice_index", "start": -2, "stop": NONEINT},
        {"k": "slice_index", "start": 0, "stop": n + 3},
        {"k": "slice_value", "start": R(x[0] + Fraction(1, 64)), "stop": NONE},
        {"k": "slice_value", "start": NONE, "stop": R(x[-1] + Fraction(1, 64))},
        {"k": "recreate", "strategy": rng.choice(["LinearFixed", "ExpAdaptive", "CubicSpline", "PiecewiseConstant"]), "n": 1, "n_f": rng.choice([1, 0, -2, 1.5]),
         "a": -1, "alpha": R(1), "beta": R(Fraction(1, 2)), "exp": R(2), "smooth": 1},
        {"k": "integral_match", "trule": "simpson", "rrule": "rectangle", "alpha": R(1)},
        {"k": "integral_match", "trule": "trapezoid", "rrule": "midpoint", "alpha": R(1)},
        # an unknown search-strategy name with valid rules: refused on a fresh object (working = reference abscissae) as after reshaping
        {"k": "integral_match", "trule": "trapezoid", "rrule": "rectangle", "alpha": R(1), "fstrategy": rng.choice(["nearest", "Closest", "", "lowest"])},
        {"k": "integral_match", "trule": "rectangle", "rrule": "rectangle", "alpha": R(1), "fstrategy": rng.choice(["nearest", " closest", "HIGHER"])},
        {"k": "interpolate_grid", "q": [R(x[0] + Fraction(1, 64)), R(x[-1])], "method": "linear"},
        {"k": "interpolate_grid", "q": [R(x[0]), R((x[0] + x[-1]) / 2), R(x[-1] + 1)], "method": "linear", "qcontainer": "list"},
        {"k": "interpolate_n", "n": 5, "method": "quadratic"},
        {"k": "interpolate_none", "method": rng.choice(["linear", "cubic"])},
        # grids whose RANGE agrees but whose first / last element does not (seed C20i: min / max compared instead of the end points)
        {"k": "interpolate_grid", "q": [R(x[-1]), R((x[0] + x[-1]) / 2), R(x[0])], "method": "linear", "qcontainer": rng.choice(["array", "list"])},
        {"k": "interpolate_grid", "q": [R((x[0] + x[-1]) / 2), R(x[0]), R(x[-1])], "method": rng.choice(["linear", "constant"])},
        {"k": "interpolate_grid", "q": [R(x[0]), R(x[-1]), R((x[0] + x[-1]) / 2)], "method": "linear"},
        # an end point that misses by very little, relative to its magnitude (or absolutely when it is 0)
        {"k": "interpolate_grid", "q": [R(x[0]), R((x[0] + x[-1]) / 2), R(x[-1] * (1 + Fraction(1, 2 ** 18)) if x[-1] else Fraction(1, 2 ** 27))], "method": "linear"},
        {"k": "interpolate_grid", "q": [R(x[0] * (1 - Fraction(1, 2 ** 18)) if x[0] > 0 else x[0] - Fraction(1, 2 ** 27)), R((x[0] + x[-1]) / 2), R(x[-1])], "method": "constant", "qcontainer": "list"},
    ])


def start_record(rng, xs, ys):
    """Start series + how the Weaver is constructed (plain constructor with array / list / int arguments, or a factory)."""
    r = rng.random()
    if r < 0.7:
        return {"x": [R(v) for v in xs], "y": [R(v) for v in ys], "container": rng.choice(["array", "array", "list", "int", "series"])}
    if r < 0.8 and all(v == i for i, v in enumerate(xs)):
        return {"x": [R(v) for v in xs], "y": [R(v) for v in ys], "ctor": "none_x"}
    return {"x": [R(v) for v in xs], "y": [R(v) for v in ys], "ctor": rng.choice(["2d", "csv", "df", "df_named", "df_swapped"])}


def random_start(rng, mmin=4, mmax=12):
    m = rng.randint(mmin, mmax)
    t = Fraction(rng.randint(-8, 8), 2)
    g0 = Fraction(rng.randint(1, 4), 2)
    uni = rng.random() < 0.4
    if rng.random() < 0.1:
        t, g0, uni = Fraction(0), Fraction(1), True
    xs = []
    for _ in range(m):
        xs.append(t)
        t += g0 if uni else Fraction(rng.randint(1, 4), 2)
    while True:
        ys = [Fraction(rng.randint(-12, 12), 4) for _ in range(m)]
        if len(set(ys)) > 1:
            break
    return xs, ys


def random_history(rng, maxlen=8, with_rejects=False, continuation=True):
    xs, ys = random_start(rng)
    sim = XSim(xs)
    ref_x = list(xs)
    ops = []
    for _ in range(rng.randint(0, maxlen)):
        ref_x = list(sim.x)              # unreshaped so far: the reference abscissae are the working ones
        if with_rejects and rng.random() < 0.3:
            ops.append(random_reject_op(rng, sim))
            continue
        if rng.random() < 0.08:
            ops.append({"k": "restore_original"})
            sim = XSim(xs if not any(o["k"] == "normalize_x" for o in ops) else sim.x)
            if any(o["k"] == "normalize_x" for o in ops):
                break               # the driver does not track the renormalised original: stop here
            continue
        op = random_domain_op(rng, sim)
        ops.append(op)
        sim.apply(op)
        if len(sim.x) < 3:
            break
    ref_x = list(sim.x)
    if continuation and len(sim.x) <= 24 and len(sim.x) >= 2:
        n = rng.randint(2, 4)
        ops.append({"k": "recreate", "strategy": rng.choice(["PiecewiseConstant", "LinearFixed", "ExpFixed", "LinearAdaptive", "ExpAdaptive"]),
                    "n": n, "a": rng.choice([-1, rng.randint(0, n)]), "alpha": R(rng.choice([1, Fraction(1, 2)])),
                    "beta": R(rng.choice([0, Fraction(1, 2), 1])), "exp": R(rng.choice([1, 2])), "smooth": 1})
        if rng.random() < 0.15:       # recreate_from_average(n) with the documented default strategy and parameters
            ops[-1].update({"strategy": "ExpAdaptive", "a": -1, "alpha": R(1), "beta": R(Fraction(1, 2)), "exp": R(2), "smooth": 1, "defaults": True})
        ops.append({"k": "integral_match", "trule": rng.choice(["trapezoid", "rectangle"]), "rrule": "rectangle", "alpha": R(1)})
        if with_rejects:
            sim2 = XSim(sim.x)
            if rng.random() < 0.5 and len(sim.x) >= 2:
                # after the series was reshaped: cut with bounds that are no samples (working and reference then span
                # different ranges), then a request with one ratio bound and one absolute bound that is inverted for
                # exactly one of the two series
                ref = XSim(ref_x)
                fine = XSim([sim.x[0] + (sim.x[i // n + 1] - sim.x[i // n]) * Fraction(i % n, n) + (sim.x[i // n] - sim.x[0]) for i in range((len(sim.x) - 1) * n)] + [sim.x[-1]])
                span = fine.x[-1] - fine.x[0]
                cut = {"k": "truncate_value", "left": R(fine.x[0] + span * Fraction(3, 32)), "right": R(fine.x[0] + span * Fraction(23, 32)), "lr": False, "rr": False}
                fine.apply(cut)
                ref.apply(cut)
                if len(fine.x) >= 3 and len(ref.x) >= 2 and (fine.x[0], fine.x[-1]) != (ref.x[0], ref.x[-1]):
                    l = Fraction(rng.choice([3, 5, 7]), 8)
                    lw = l * (fine.x[-1] - fine.x[0]) + fine.x[0]
                    lr_ = l * (ref.x[-1] - ref.x[0]) + ref.x[0]
                    if lw != lr_:
                        right = (lw + lr_) / 2          # inverted for the series with the larger converted left bound only
                        ops.append(cut)
                        ops.append({"k": "truncate_value", "left": R(l), "right": R(right), "lr": True, "rr": False})
                        return {"fn": "whist", "start": start_record(rng, xs, ys), "ops": ops}
            ops.append(random_reject_op(rng, sim2))
    return {"fn": "whist", "start": start_record(rng, xs, ys), "ops": ops}


# ---------------------------------------------------------------------------------------------- whole-API programs (C09)
STRATS = ["PiecewiseConstant", "LinearFixed", "LinearAdaptive", "ExpFixed", "ExpAdaptive", "CubicSpline", "CubicSpline", "FunctionNorm", "FunctionInterp"]      # (a constant sampler would make normalize_y undefined)
METHODS = ["linear", "constant", "cubic", "spline"]


def sim_apply(sim, op):
    k = op["k"]
    F = lambda r: Fraction(r[0], r[1])
    x = sim.x
    if k == "recreate":
        n = op["n"]
        out = []
        for a, b in zip(x, x[1:]):
            out += [a + (b - a) * Fraction(j, n) for j in range(n)]
        sim.x = out + [x[-1]]
    elif k == "interpolate_n":
        n = op["n"]
        sim.x = [x[0] + (x[-1] - x[0]) * Fraction(j, n - 1) for j in range(n - 1)] + [x[-1]]
    elif k == "interpolate_grid":
        sim.x = [F(r) for r in op["q"]]
    else:
        sim.apply(op)


def random_program(rng, maxops=10, maxlen=40, start=None):
    xs, ys = start if start is not None else random_start(rng, 4, 14)
    xs, ys = list(xs), list(ys)
    sim = XSim(xs)
    orig_x = list(xs)
    ops = []
    reshaped = False
    normalized_x = False
    same_len_grid = False
    for _ in range(rng.randint(1, maxops)):
        n = len(sim.x)
        r = rng.random()
        if same_len_grid:       # the caller's grid (as long as the original) is now the working x: restore next, half of the time
            same_len_grid = False                                   # (seed C09j: restore refills same-shaped buffers in place)
            r = 0.39 if rng.random() < 0.5 and not normalized_x else r
        if r < 0.34:
            op = random_domain_op(rng, sim, maxlen)
            if op["k"] == "truncate_value":           # bounds that cannot coincide with a sample (no floating-point ties)
                op = {"k": "truncate_value", "left": R(Fraction(rng.randint(1, 40), 97)), "right": R(Fraction(rng.randint(55, 96), 97)), "lr": True, "rr": True}
            if op["k"] == "normalize_x":
                normalized_x = True
        elif r < 0.40:
            if normalized_x:
                continue
            op = {"k": "restore_original"}
            sim = XSim(orig_x)
            reshaped = False
            ops.append(op)
            continue
        elif r < 0.52:
            if n * 2 - 1 > maxlen * 2:
                continue
            nn = rng.randint(2, 3 if n > 12 else 5)
            s = rng.choice(STRATS)
            op = {"k": "recreate", "strategy": s, "n": nn, "a": rng.choice([-1, rng.randint(0, nn)]), "alpha": R(rng.choice([1, Fraction(1, 2), Fraction(3, 4)])),
                  "beta": R(rng.choice([0, Fraction(1, 2), 1])), "exp": R(rng.choice([1, 2, 3])), "smooth": rng.choice([1, 2])}
            ops.append(op)
            sim_apply(sim, op)
            if not reshaped and rng.random() < 0.7:
                ops.append({"k": "integral_match", "trule": rng.choice(["trapezoid", "rectangle"]), "rrule": rng.choice(["rectangle", "rectangle", "trapezoid"]),
                            "alpha": R(rng.choice([1, 2]))})
            reshaped = True
            continue
        elif r < 0.60:
            if n < 4:
                continue
            op = {"k": "interpolate_n", "n": rng.choice([2, 3, 5, 9, 17, n, 2 * n - 1]), "method": rng.choice(METHODS)}
            if op["n"] > maxlen * 2:
                continue
            reshaped = True
        elif r < 0.68:
            if n < 4:
                continue
            m = rng.randint(2, 9)
            want = len(orig_x) if rng.random() < 0.35 else 0     # a grid of exactly as many points as the original series
            if want:
                m = want
            inner = sorted(set(sim.x[0] + (sim.x[-1] - sim.x[0]) * Fraction(rng.randint(1, 63), 64) for _ in range(m - 2)))
            while want and len(inner) < want - 2:
                inner = sorted(set(inner) | {sim.x[0] + (sim.x[-1] - sim.x[0]) * Fraction(rng.randint(1, 255), 256)})
            q = [sim.x[0]] + inner + [sim.x[-1]]
            op = {"k": "interpolate_grid", "q": [R(v) for v in q], "method": rng.choice(METHODS), "qcontainer": rng.choice(["array", "list"]) if not want else "array", "snap_ends": True}
            same_len_grid = bool(want)
            reshaped = True
        elif r < 0.76:
            op = {"k": "trend", "c": [R(Fraction(rng.randint(-4, 4), 2)) for _ in range(3)], "normalized": rng.random() < 0.5}
            reshaped = True
        elif r < 0.82:
            if n < 5:
                continue
            op = {"k": "smooth", "s_f": rng.choice([0.0, 0.5, 5.0, 50.0])}
            reshaped = True
        elif r < 0.88:
            op = {"k": "noise", "snr_f": rng.choice([5.0, 20.0, 40.0]), "seed": rng.randint(0, 10 ** 6)}
            reshaped = True
        else:
            op = rng.choice([{"k": "slice_index", "start": rng.randint(0, n - 1), "stop": rng.choice([NONEINT, rng.randint(1, n)]), "step": rng.choice([1, 2, -1])},
                             {"k": "slice_value", "start": R(sim.x[rng.randrange(n)]) if n and all(v.denominator in (1, 2, 4, 8, 16) for v in sim.x) else NONE, "stop": NONE},
                             {"k": "get"}, {"k": "len"}, {"k": "to_2d_array"},
                             {"k": "poke", "i": rng.randrange(n), "d": R(Fraction(rng.choice([-3, 1, 2, 5]), 2))},
                             {"k": "poke", "i": rng.randrange(n), "d": R(Fraction(rng.choice([-3, 1, 2, 5]), 2))}]
                            + ([{"k": "to_function"}] if n >= 5 else []))
            if op["k"] == "poke":
                reshaped = True
        ops.append(op)
        sim_apply(sim, op)
        if len(sim.x) < 4:
            # a cubic / spline resampling of the 2- or 3-sample series that is left: SciPy refuses it (the library documents no
            # minimum length); whatever the outcome, the object must stay well-formed (seed C09k)
            if len(sim.x) >= 2 and rng.random() < 0.6:
                ops.append({"k": "interpolate_n", "n": rng.choice([5, 9, len(sim.x)]), "method": rng.choice(["spline", "cubic"])})
            break
    return {"fn": "whist", "start": start_record(rng, xs, ys), "ops": ops}


def random_restore_case(rng):
    """prefix program, restore_original, suffix program; the suffix is generated as a program on the start series itself
    (the prefix contains no normalisation, so get_original() returns the start series)."""
    xs, ys = random_start(rng, 4, 14)
    start = (xs, ys)
    while True:
        prefix = [o for o in random_program(rng, maxops=5, start=start)["ops"] if o["k"] != "restore_original"]
        if not any(o["k"] in ("normalize_x", "normalize_y") for o in prefix):
            break
    suffix = random_program(rng, maxops=5, start=start)["ops"]
    if rng.random() < 0.5:
        # bookkeeping that a restore may forget (accumulated scales / shifts) and a first step after the restore that would read it
        # (seed C09i: the smoothing condition multiplied by a stale y_scale)
        prefix.insert(rng.randint(0, len(prefix)), rng.choice([{"k": "scale_y", "v": R(rng.choice([3, -2, Fraction(1, 4), 10]))},
                                                               {"k": "scale_x", "v": R(rng.choice([2, Fraction(1, 2), 4]))},
                                                               {"k": "shift_y", "v": R(rng.choice([7, -3]))}, {"k": "shift_x", "v": R(rng.choice([10, -4]))}]))
        suffix.insert(0, rng.choice([{"k": "smooth", "s_f": rng.choice([0.5, 5.0, 50.0])}, {"k": "smooth", "s_f": 5.0}, {"k": "to_function"},
                                     {"k": "noise", "snr_f": 20.0, "seed": rng.randint(0, 10 ** 6)},
                                     {"k": "trend", "c": [R(1), R(Fraction(1, 2)), R(0)], "normalized": True}]))
    return {"fn": "wrestore", "start": {"x": [R(v) for v in xs], "y": [R(v) for v in ys]}, "prefix": prefix, "suffix": suffix}


# ---------------------------------------------------------------------------------------------- transition cover of the shape abstraction
def shape_cover(edges, rng, extra_walks=0, maxlen=10):
    """edges: [{from, act, to}] emitted by MC_WeaverShape.  Returns programs (lists of abstract acts from an initial state)
    such that every edge lies on at least one of them, plus seeded random walks."""
    key = lambda s: json.dumps(s, sort_keys=True)
    succ, states = {}, {}
    for e in edges:
        succ.setdefault(key(e["from"]), []).append((e["act"], key(e["to"])))
        states[key(e["from"])] = e["from"]
        states[key(e["to"])] = e["to"]
    inits = [k for k, s in states.items() if s["n"] == 6 and s["r"] == 6 and not s["reshaped"] and not s["rec"] and s["sy"] in (["cy"], [])
             and ((s["sx"] == ["cx"] and s["sy"] == ["cy"]) or (s["sx"] == [] and s["sy"] == []))]
    # BFS tree from the two constructed states
    parent = {}
    order = []
    for i in inits:
        st = states[i]
        parent[i] = None
        order.append(i)
    qi = 0
    while qi < len(order):
        u = order[qi]
        qi += 1
        for act, v in succ.get(u, []):
            if v not in parent:
                parent[v] = (u, act)
                order.append(v)

    def path_to(u):
        acts = []
        while parent[u] is not None:
            u, a = parent[u]
            acts.append(a)
        return list(reversed(acts)), u
    progs = []
    covered = set()
    for u in order:
        for act, v in succ.get(u, []):
            ek = (u, json.dumps(act, sort_keys=True))
            if ek in covered:
                continue
            acts, root = path_to(u)
            if len(acts) + 1 > maxlen + 2:
                continue
            covered.add(ek)
            progs.append({"fn": "wshape", "arr": states[root]["sx"] == ["cx"], "acts": acts + [act]})
    for _ in range(extra_walks):
        u = rng.choice(inits)
        acts = []
        root = u
        for _ in range(maxlen):
            nxt = succ.get(u, [])
            if not nxt:
                break
            a, u = rng.choice(nxt)
            acts.append(a)
        progs.append({"fn": "wshape", "arr": states[root]["sx"] == ["cx"], "acts": acts})
    return progs, len(covered), sum(len(v) for v in succ.values())
