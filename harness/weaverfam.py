"""Weaver histories: mapping of MC_Weaver emissions to executor cases and seeded random programs (driver only:
a light rational simulation of the abscissae is used to choose admissible arguments, never to judge)."""
import json
from fractions import Fraction

from fnexec import NONE, NONEINT


def R(v):
    f = Fraction(v)
    return [f.numerator, f.denominator]


def maximal_histories(json_lines):
    """Drop histories that are strict prefixes of another emitted history (every step of the longer one is observed)."""
    keys = {}
    for j in json_lines:
        keys[(json.dumps(j["start"], sort_keys=True), tuple(json.dumps(o, sort_keys=True) for o in j["hist"]))] = j
    prefixes = set()
    for (s, h) in keys:
        for k in range(1, len(h)):
            prefixes.add((s, h[:k]))
    return [j for key, j in keys.items() if key not in prefixes]


def from_emission(j):
    return {"fn": "whist", "start": {"x": j["start"]["x"], "y": j["start"]["y"]}, "ops": j["hist"]}


class XSim:
    def __init__(self, xs):
        self.x = list(xs)

    def apply(self, op):
        k, x = op["k"], self.x
        F = lambda r: Fraction(r[0], r[1])
        if k == "append":
            x.append(2 * x[-1] - x[-2])
        elif k == "shift_x":
            self.x = [v + F(op["v"]) for v in x]
        elif k == "scale_x":
            self.x = [v * F(op["v"]) for v in x]
        elif k == "normalize_x":
            lo, hi = F(op["lo"]), F(op["hi"])
            mn, mx = min(x), max(x)
            self.x = [(v - mn) / (mx - mn) * (hi - lo) + lo for v in x]
        elif k == "repeat":
            n, per = len(x), (x[-1] - x[0]) + (x[-1] - x[-2])
            self.x = [x[i % n] + (i // n) * per for i in range(n * op["r"])]
        elif k == "truncate_index":
            self.x = x[op["start"]:(None if op["stop"] == NONEINT else op["stop"])]
        elif k == "truncate_value":
            l, r = F(op["left"]), F(op["right"])
            span = x[-1] - x[0]
            if op["lr"]:
                l = l * span + x[0]
            if op["rr"]:
                r = r * span + x[0]
            lo = max([i for i, v in enumerate(x) if v <= l] or [0])
            hi = min([i for i, v in enumerate(x) if v >= r] or [len(x) - 1])
            self.x = x[lo:hi + 1]


def random_domain_op(rng, sim, maxlen=40):
    x = sim.x
    n = len(x)
    kinds = ["append", "shift_x", "shift_y", "scale_x", "scale_y", "normalize_x", "normalize_y", "repeat", "truncate_value", "truncate_index"]
    k = rng.choice(kinds)
    if k == "repeat" and n * 2 > maxlen:
        k = "shift_y"
    if k in ("truncate_value", "truncate_index") and n < 4:
        k = "append"
    if k == "append":
        return {"k": k, "periodic": rng.random() < 0.5}
    if k in ("shift_x", "shift_y"):
        return {"k": k, "v": R(Fraction(rng.randint(-12, 12), 2)), "as_int": rng.random() < 0.3}
    if k == "scale_x":
        return {"k": k, "v": R(rng.choice([Fraction(1, 2), 2, 3, Fraction(3, 2)])), "as_int": rng.random() < 0.3}
    if k == "scale_y":
        return {"k": k, "v": R(rng.choice([Fraction(1, 2), 2, 3, -1, -2])), "as_int": rng.random() < 0.3}
    if k in ("normalize_x", "normalize_y"):
        lo = rng.randint(-3, 3)
        return {"k": k, "lo": R(lo), "hi": R(lo + rng.randint(1, 4))}
    if k == "repeat":
        return {"k": k, "r": rng.randint(1, 3)}
    if k == "truncate_index":
        s = rng.randint(0, n - 3)
        e = rng.choice([NONEINT, rng.randint(s + 2, n)])
        return {"k": k, "start": s, "stop": e}
    i, j = sorted(rng.sample(range(n), 2))
    if rng.random() < 0.5:
        span = x[-1] - x[0]
        l = Fraction(rng.randint(0, 6), 16)
        r = Fraction(rng.randint(9, 16), 16)
        return {"k": k, "left": R(l), "right": R(r), "lr": True, "rr": True}
    d = Fraction(rng.choice([0, 0, 1]), 8) * (x[1] - x[0])
    return {"k": k, "left": R(x[i] + d), "right": R(x[j] + (x[j] - x[j - 1]) * Fraction(rng.choice([0, 0, -1]), 8)), "lr": False, "rr": False}


def random_reject_op(rng, sim):
    n = len(sim.x)
    x = sim.x
    return rng.choice([
        {"k": "truncate_value", "left": R(x[-1]), "right": R(x[0]), "lr": False, "rr": False},
        {"k": "truncate_value", "left": R(Fraction(3, 4)), "right": R(Fraction(1, 4)), "lr": True, "rr": True},
        {"k": "truncate_value", "left": R(x[0]), "right": R(x[0]), "lr": False, "rr": False},
        {"k": "truncate_index", "start": -1, "stop": n},
        {"k": "truncate_index", "start": 0, "stop": n + 1},
        {"k": "slice_index", "start": -2, "stop": NONEINT},
        {"k": "slice_index", "start": 0, "stop": n + 3},
        {"k": "slice_value", "start": R(x[0] + Fraction(1, 64)), "stop": NONE},
        {"k": "slice_value", "start": NONE, "stop": R(x[-1] + Fraction(1, 64))},
        {"k": "recreate", "strategy": rng.choice(["LinearFixed", "ExpAdaptive", "CubicSpline", "PiecewiseConstant"]), "n": 1, "n_f": rng.choice([1, 0, -2, 1.5]),
         "a": -1, "alpha": R(1), "beta": R(Fraction(1, 2)), "exp": R(2), "smooth": 1},
        {"k": "integral_match", "trule": "simpson", "rrule": "rectangle", "alpha": R(1)},
        {"k": "integral_match", "trule": "trapezoid", "rrule": "midpoint", "alpha": R(1)},
        {"k": "interpolate_grid", "q": [R(x[0] + Fraction(1, 64)), R(x[-1])], "method": "linear"},
        {"k": "interpolate_grid", "q": [R(x[0]), R((x[0] + x[-1]) / 2), R(x[-1] + 1)], "method": "linear", "qcontainer": "list"},
        {"k": "interpolate_n", "n": 5, "method": "quadratic"},
    ])


def random_start(rng, mmin=4, mmax=12):
    m = rng.randint(mmin, mmax)
    t = Fraction(rng.randint(-8, 8), 2)
    g0 = Fraction(rng.randint(1, 4), 2)
    uni = rng.random() < 0.4
    xs = []
    for _ in range(m):
        xs.append(t)
        t += g0 if uni else Fraction(rng.randint(1, 4), 2)
    while True:
        ys = [Fraction(rng.randint(-12, 12), 4) for _ in range(m)]
        if len(set(ys)) > 1:
            break
    return xs, ys


def random_history(rng, maxlen=8, with_rejects=False, continuation=True):
    xs, ys = random_start(rng)
    sim = XSim(xs)
    ops = []
    for _ in range(rng.randint(0, maxlen)):
        if with_rejects and rng.random() < 0.3:
            ops.append(random_reject_op(rng, sim))
            continue
        if rng.random() < 0.08:
            ops.append({"k": "restore_original"})
            sim = XSim(xs if not any(o["k"] == "normalize_x" for o in ops) else sim.x)
            if any(o["k"] == "normalize_x" for o in ops):
                break               # the driver does not track the renormalised original: stop here
            continue
        op = random_domain_op(rng, sim)
        ops.append(op)
        sim.apply(op)
        if len(sim.x) < 3:
            break
    if continuation and len(sim.x) <= 24 and len(sim.x) >= 2:
        n = rng.randint(2, 4)
        ops.append({"k": "recreate", "strategy": rng.choice(["PiecewiseConstant", "LinearFixed", "ExpFixed", "LinearAdaptive", "ExpAdaptive"]),
                    "n": n, "a": rng.choice([-1, rng.randint(0, n)]), "alpha": R(rng.choice([1, Fraction(1, 2)])),
                    "beta": R(rng.choice([0, Fraction(1, 2), 1])), "exp": R(rng.choice([1, 2])), "smooth": 1})
        ops.append({"k": "integral_match", "trule": rng.choice(["trapezoid", "rectangle"]), "rrule": "rectangle", "alpha": R(1)})
        if with_rejects:
            sim2 = XSim(sim.x)
            ops.append(random_reject_op(rng, sim2))
    return {"fn": "whist", "start": {"x": [R(v) for v in xs], "y": [R(v) for v in ys], "container": rng.choice(["array", "array", "list", "int"])},
            "ops": ops}
