"""C04 - recreated series has an exact n-fold grid structure."""
from fractions import Fraction

from driver import main
from rfafam import run_rfa_check, random_rfa_case, lattice_series, R, ALL, bump
from rfafam import params as _params


def rfafam_params(rng, s, n):
    p = _params(rng, s, n, exact=False)
    p.pop("exp_f", None)
    p.pop("smooth_f", None)
    p["smooth"] = 1
    return p


def extra(c):
    rng = c.rng
    out = []
    for _ in range(1500 if c.thorough else 250):          # larger m and n, integer / float / list abscissae
        k = random_rfa_case(rng, exact=False, strategies=ALL, mmax=rng.choice([6, 20, 60]), nmax=rng.choice([8, 64]), vals=tuple(range(-40, 41)), den=8)
        out.append(k)
    # every n in 2..64 (bit-for-bit n-th abscissae can depend on a single n), on integer, non-dyadic float and negative abscissae
    sweeps = [([Fraction(i) for i in range(5)], "int"), ([Fraction(k, 7) for k in (3, 5, 11, 12, 20, 31)], "array"),
              ([Fraction(k, 10) for k in (-47, -31, -30, -12, 5)], "array"),
              # evenly spaced series in common time units (5-minute samples in seconds, hours in days, tenths): the width / n of the
              # helper intervals rounds differently for each (seed C04h: a float-step arange with one element too many)
              ([Fraction(300 * i) for i in range(4)], "int"), ([Fraction(i, 24) for i in range(4)], "array"),
              ([Fraction(7 + i, 10) for i in range(4)], "array"), ([Fraction(3600 * i + 1800) for i in range(3)], "array")]
    for xs, cont in sweeps:
        for n in range(2, 65):
            for s in (ALL if c.thorough else ["PiecewiseConstant", "LinearFixed", "CubicSpline"]):
                k = {"fn": "rfa", "strategy": s, "x": [R(v) for v in xs], "y": [R(Fraction((i * 7) % 5 - 2)) for i in range(len(xs))], "n": n,
                     "container": cont}
                k.update(rfafam_params(rng, s, n))
                out.append(k)
    for _ in range(1200 if c.thorough else 200):          # user-supplied sampling functions (FunctionRFA)
        xs, ys = lattice_series(rng, 2, rng.choice([4, 9, 30]))
        out.append({"fn": "rfa", "strategy": rng.choice(["FunctionConst", "FunctionInterp", "FunctionScalar", "FunctionNorm", "FunctionSubclass"]),
                    "x": [R(v) for v in xs], "y": [R(v) for v in ys], "n": rng.choice([2, 3, 5, 8, 49, 64]), "a": -1, "alpha": R(1), "beta": R(0),
                    "exp": R(1), "smooth": 1, "exact": False, "container": rng.choice(["array", "list", "int"])})
    for _ in range(400 if c.thorough else 80):            # rejects: n below 2 (integer and float)
        xs, ys = lattice_series(rng)
        nf = rng.choice([1, 0, -3, 1.5, 1.999])
        out.append({"fn": "rfa_reject", "strategy": rng.choice(ALL), "x": [R(v) for v in xs], "y": [R(v) for v in ys],
                    "n": int(nf) if nf == int(nf) else 1, "n_f": nf})
    return out


def kindmut(e):
    e["kind"] = "list"


def lenmut(e):
    e["outy"] = e["outy"][:-1]


main(lambda: run_rfa_check(
    "C04",
    "lattice: every series (integer abscissae, gaps from the instance's set, values from its value set), every n, every explicit "
    "window a in 0..n and 20 parameter combinations of the four window strategies, emitted by TLC (MC_Rfa) + piecewise-constant "
    "and cubic-spline runs on the same series; user-supplied sampling functions through FunctionRFA (constant, interpolating, "
    "scalar-only, reduction-based); harness-originated: seeded random series with m up to 60, n up to 64, int/float/list "
    "abscissae, real parameters; every n in 2..64 on integer / non-dyadic float / negative abscissae; rejects n in {1,0,-3,1.5,1.999}. Judged clauses: container type, lengths (m-1)n+1, finiteness, "
    "grid = n-fold linspace of x, strictly increasing, every n-th abscissa bit-identical. non-trivial = m >= 3 and n >= 3 and "
    "non-uniform or non-constant; distinct by full input",
    extra,
    [(lambda e: e["fn"] == "rfa" and e["outcome"] == "ok" and e["kind"] == "ndarray1f", kindmut, "C04.container"),
     (lambda e: e["fn"] == "rfa" and e["outcome"] == "ok", lenmut, "C04.length"),
     (lambda e: e["fn"] == "rfa" and e["outcome"] == "ok" and len(e["outx"]) > 3, lambda e: bump(e, "outx", 1, 7), "C04.grid"),
     (lambda e: e["fn"] == "rfa" and e["outcome"] == "ok", lambda e: e["nthbits"][0].__setitem__(2, e["nthbits"][0][2] ^ 1), "C04.nth_abscissa_bits")],
    nontrivial=lambda e: e["fn"] == "rfa" and len(e["x"]) >= 3 and e["n"] >= 3 and len(set(map(tuple, e["y"]))) > 1))
