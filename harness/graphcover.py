"""Transition cover of a labelled state graph emitted by TLC as JSON edges {from, act, to, ...}: programs (root state,
list of acts) such that every edge lies on at least one of them (BFS tree path to the edge's source + the edge), plus
seeded random walks.  Used for the small control-state specifications (DataHome)."""
import json


def cover(edges, is_init, rng=None, extra_walks=0, maxlen=12):
    key = lambda s: json.dumps(s, sort_keys=True)
    succ, states = {}, {}
    for e in edges:
        u, v = key(e["from"]), key(e["to"])
        states[u], states[v] = e["from"], e["to"]
        succ.setdefault(u, {})[json.dumps(e["act"], sort_keys=True)] = (e["act"], v)
    inits = [k for k, s in states.items() if is_init(s)]
    parent, order = {}, []
    for i in inits:
        parent[i] = None
        order.append(i)
    qi = 0
    while qi < len(order):
        u = order[qi]
        qi += 1
        for act, v in succ.get(u, {}).values():
            if v not in parent:
                parent[v] = (u, act)
                order.append(v)

    def path_to(u):
        acts = []
        while parent[u] is not None:
            u, a = parent[u]
            acts.append(a)
        return list(reversed(acts)), u
    progs, nedges = [], 0
    for u in order:
        for act, v in succ.get(u, {}).values():
            nedges += 1
            acts, root = path_to(u)
            progs.append((states[root], acts + [act]))
    for _ in range(extra_walks):
        u = root = rng.choice(inits)
        acts = []
        for _ in range(rng.randint(1, maxlen)):
            nxt = list(succ.get(u, {}).values())
            if not nxt:
                break
            a, u = rng.choice(nxt)
            acts.append(a)
        progs.append((states[root], acts))
    return progs, {"states": len(states), "edges": nedges, "reachable_states": len(order)}
