"""C20 - invalid requests are refused with ValueError and leave the Weaver untouched."""
import copy
import json

from driver import Check, main
from fnexec import execute
from weaverfam import maximal_histories, from_emission, random_history
import matchfam
import procfam
import rfafam


def misc_cases(rng, n):
    out = []
    for _ in range(n):
        out.append(rng.choice([
            {"fn": "reject_misc", "kind": "len_mismatch", "m": rng.randint(2, 30), "d": rng.choice([-1, 1, 2, 7])},
            {"fn": "reject_misc", "kind": "len_mismatch_list", "m": rng.randint(2, 30), "d": rng.choice([-1, 1, 3])},
            {"fn": "reject_misc", "kind": "bad_2d", "shape": rng.choice([[5, 3], [5, 1], [2, 5], [4, 2, 2], [6], [2], [1], [3], [1, 1, 2], [2, 2, 2], [0]])},
            {"fn": "reject_misc", "kind": "unknown_dataset", "name": rng.choice(["no-such-dataset", "sandvine", "sandvine-foo", "mix-it", "ams_ix_unknown", ""])},
            {"fn": "reject_misc", "kind": "unknown_strategy", "name": rng.choice(["nearest", "Closest", "", "lowest", " closest", "lower ", "HIGHER"]), "form": rng.randrange(10)},
            {"fn": "reject_misc", "kind": "unknown_rule", "name": rng.choice(["simpson", "Trapezoid", "rect", "", "trapezoid ", " rectangle", "RECTANGLE"])},
            {"fn": "reject_misc", "kind": "unknown_method", "name": rng.choice(["quadratic", "Linear", "nearest", "", "linear ", " constant", "CUBIC", "Spline"])},
            {"fn": "reject_misc", "kind": "no_sampler", "m": rng.randint(3, 9)},
        ]))
    return out


def run():
    c = Check("C20")
    r = c.model("MC_Weaver", "MC_Weaver_%s.cfg" % c.tier, timeout=3400, emits_all=False)
    hs = [j for j in maximal_histories(r.json_lines)
          if any(o["k"] in ("truncate_value", "truncate_index") and (o.get("start", 0) < 0 or o.get("stop", 0) == 99 or o.get("left") == [3, 1]) for o in j["hist"])]
    cases = [from_emission(j) for j in hs]
    lattice = len(cases)
    nr = 8000 if c.thorough else 1200
    for i in range(nr):
        cases.append(random_history(c.rng, maxlen=6, with_rejects=True))
    # function-level refusals
    for i in range(nr // 4):
        cases.append(matchfam.random_match_case(c.rng, exact=True, scope="reject"))
        k = rfafam.random_rfa_case(c.rng, exact=True)
        nf = c.rng.choice([1, 0, -3, 1.5])
        cases.append({"fn": "rfa_reject", "strategy": k["strategy"], "x": k["x"], "y": k["y"], "n": int(nf) if nf == int(nf) else 1, "n_f": nf})
    cases += [k for k in procfam.random_cases("truncate", c.rng, nr // 4) if k["fn"] in ("truncate", "slice_value", "slice_index", "truncate_index")]
    cases += misc_cases(c.rng, nr // 4)
    if c.replay_path:
        ev = json.load(open(c.replay_path))["event"]
        cases = [ev["meta"]["case"]]
    evs = c.run_cases(cases, execute)
    c.events = [{k: v for k, v in e.items() if k not in ("n_f", "alpha_f", "exp_f", "smooth_f")} for e in evs]
    for e, k in zip(c.events, cases):
        e["meta"] = {"case": k}
        c.count_nontrivial(json.dumps(k, sort_keys=True))
    if not c.replay_path:
        refused_first = lambda e: e["fn"] == "whist" and any(s["outcome"] == "ValueError" and s["frame"] for s in e["steps"][:1])
        c.negative_from(c.events, refused_first, lambda e: e["steps"][0].__setitem__("outcome", "IndexError"), "C20.outcome")
        c.negative_from(c.events, refused_first, lambda e: e["steps"][0].__setitem__("frame", False), "C20.frame")
        c.negative_from(c.events, lambda e: e["fn"] == "reject_misc" and e["outcome"] == "ValueError" and e["kind"] != "no_sampler",
                        lambda e: e.__setitem__("outcome", "returned:NoneType"), "C20.")
    c.rule = ("Weaver-level: every maximal history of MC_Weaver that contains a refused request (inverted range, negative start, stop beyond "
              "the length - the frame condition is an action property of the model) replayed on a real Weaver, plus seeded random histories "
              "(length 0..6 + recreate + match) interleaved with 15 kinds of invalid requests (inverted / empty range, out-of-range index "
              "bounds, slice values that are no samples, n < 2, unknown rule / method names, grids with other end points); after every "
              "refused call the three series are compared bitwise with their state before. Function-level: fixed points that are no "
              "samples / outnumber x, unknown rule, n < 2 for every strategy, inverted truncation, index bounds, constructor length "
              "mismatch, non-(N,2) arrays, unknown dataset / strategy / rule / method names. distinct by full case")
    c.coverage_extra = {"lattice_histories_from_tlc": lattice, "harness_originated_cases": len(cases) - lattice}
    c.assumptions = ["TLC 1.8, CommunityModules Json/IOUtils", "frame condition = bitwise equality of dtype, shape and bytes of x, y, reference and original "
                     "before and after the refused call", "which requests are invalid is decided by the specification (Weaver!Rejects and the function-level judges)"]
    return c.finish(exhaustive=False)


main(run)
