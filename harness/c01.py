"""C01 - integral matching reproduces every reference interval integral."""
from driver import main
from matchfam import run_match_check


def shift_interior(e):
    # move one interior sample of the first window by 0.5: the window's integral no longer matches
    f = e["out"][1]
    e["out"][1] = [1, (f[1] if f[0] >= 0 else 0) + 5000, f[2]]
    e["out2"] = list(e["out"])


main(lambda: run_match_check(
    "C01",
    "lattice (MC_Match): every integer grid (gaps from the instance) x every set of 2-3 fixed samples x reference abscissae on / a "
    "quarter below / above / exactly half-way x {closest, lower, higher search, explicit positions, explicit indices} x 2x2 "
    "integration rules x exponents 1..3 - P01 holds on the model exactly, every behaviour replayed; harness-originated: seeded random "
    "half-integer grids of 3..22 samples (exact exponents incl. 1/2, 3/2) and real exponents in [0.05, 8] on grids up to 1000 samples, "
    "out-of-scope and rejected requests. non-trivial = accepted run with >= 2 windows; distinct by full input",
    [(lambda e: e["outcome"] == "ok" and e["small"] and e["mode"] == "indices" and e["given"] == [0, 2, 4] and e["exact"], shift_interior, "C01.interval_integral")]))
