"""C16 - smoothing and the spline function respect the smoothing condition."""
import copy
import json
from fractions import Fraction

from driver import Check, main
from fnexec import execute


def R(v):
    f = Fraction(v)
    return [f.numerator, f.denominator]


def random_cases(rng, n):
    out = []
    for _ in range(n):
        m = rng.randint(5, 200 if rng.random() < 0.2 else 40)
        t = Fraction(rng.randint(-40, 40), 4)
        uni = rng.random() < 0.5
        g0 = Fraction(rng.randint(1, 8), 4)
        xs = []
        for _ in range(m):
            xs.append(t)
            t += g0 if uni else Fraction(rng.randint(1, 8), 4)
        if rng.random() < 0.3:
            # decimal abscissae (tenths / hundredths, not representable in binary), half of them starting below zero and ending nearer
            # to it: a shifted or rescaled time axis does not map back onto the samples exactly (seed C16k: last sample outside the
            # spline's base interval by one ulp)
            den = rng.choice([10, 10, 100, 3])
            m = min(m, 60)
            t = Fraction(rng.randint(-200, -20) if rng.random() < 0.5 else rng.randint(-40, 40), den)
            g0 = Fraction(rng.randint(1, 30), den)
            xs = []
            for _ in range(m):
                xs.append(t)
                t += g0 if uni else Fraction(rng.randint(1, 30), den)
            if uni and xs[0] < 0 and rng.random() < 0.7:     # evenly spaced from a negative start to a small positive end
                hi = Fraction(rng.randint(1, 15), den)
                xs = [xs[0] + (hi - xs[0]) * Fraction(i, m - 1) for i in range(m)]
        kind = rng.random()
        if kind < 0.2:            # affine data: smoothing must be the identity for every s
            sl, ic = Fraction(rng.randint(-12, 12), 4), Fraction(rng.randint(-20, 20), 4)
            ys = [sl * v + ic for v in xs]
            affine = True
        else:
            affine = False
            smooth = rng.random() < 0.5
            ys, v = [], Fraction(rng.randint(-20, 20), 4)
            for _ in range(m):
                v += Fraction(rng.randint(-4, 4), 8) if smooth else Fraction(rng.randint(-40, 40), 8)
                ys.append(v)
            if rng.random() < 0.3:      # a series that ends with the value it starts with (one closed period; seed C16i: such
                ys[-1] = ys[0]          # series got a periodic spline whose last value is the fit at the FIRST sample)
        s = rng.choice([0.0, 0.0, 10 ** rng.uniform(-4, 2)])
        if not affine and ys[-1] == ys[0] and rng.random() < 0.6:
            s = 10 ** rng.uniform(-2, 2)
        # the smoothing step is requested on a fresh object or after a short history of other operations
        pre = []
        for _ in range(rng.choice([0, 0, 1, 2, 3])):
            pre.append(rng.choice([
                {"k": "scale_y", "v": R(rng.choice([3, -2, Fraction(1, 2), 5]))}, {"k": "scale_x", "v": R(rng.choice([2, Fraction(1, 2), 4]))},
                {"k": "shift_y", "v": R(rng.choice([7, -3]))}, {"k": "shift_x", "v": R(rng.choice([10, -4]))},
                {"k": "append", "periodic": rng.random() < 0.5}, {"k": "normalize_y", "lo": R(0), "hi": R(rng.choice([1, 10]))}]))
        if pre and any(o["k"] == "normalize_y" for o in pre) and len(set(ys)) < 2:
            pre = []
        cont = "array"
        if rng.random() < 0.2 and all((v * 4).denominator == 1 for v in xs):   # integer-valued series handed over in integer-typed arrays (only dtype-preserving steps before)
            xs = [Fraction(int(v * 4)) for v in xs]
            ys = [Fraction(int(v * 4)) for v in ys] if not affine else [Fraction(int(sl * 4)) * v + int(ic) for v in xs]
            pre = [o for o in pre if o["k"] == "append" or (o["k"] in ("scale_y", "shift_y", "scale_x", "shift_x") and o["v"][1] == 1)]
            for o in pre:
                if o["k"] != "append":
                    o["as_int"] = True
            cont = rng.choice(["int", "int32", "list"])
        far = {"xoff": [1, rng.choice([17, 20])]} if cont == "array" and rng.random() < 0.15 else {}
        out.append({"fn": "smooth", **far, "x": [R(v) for v in xs], "y": [R(v) for v in ys], "s_f": s, "pre": pre, "container": cont,
                    # (an appended sample breaks affinity; scale / shift / normalise keep it)
                    "identity_expected": bool(s == 0.0 or (affine and not any(o["k"] == "append" for o in pre))), "affine": affine})
    return out


def run():
    c = Check("C16")
    c.model("MC_Env", "MC_Env_%s.cfg" % c.tier, emits_all=False)
    cases = random_cases(c.rng, 10000 if c.thorough else 1500)
    if c.replay_path:
        ev = json.load(open(c.replay_path))["event"]
        cases = [ev["meta"]["case"]]
    evs = c.run_cases(cases, execute)
    for e, k in zip(evs, cases):
        e["meta"] = {"case": k}
        e.pop("x", None)
        e.pop("y", None)
        if not e.get("warned") and not k["identity_expected"]:
            c.count_nontrivial(json.dumps(k, sort_keys=True))
    if not c.replay_path:
        def neg(pred, mut, prefix):
            c.negative_from(evs, pred, mut, prefix)
        live = lambda e: e["outcome"] == "ok" and not e["warned"]
        neg(lambda e: live(e) and not e["identity_expected"] and len(e["dev"]) > 0, lambda e: (e.__setitem__("s_scaled", 1), e.__setitem__("dev", [1000] * len(e["dev"]))), "C16.smoothing_condition")
        def bump(e, key):
            f = e[key][1]
            e[key][1] = [1, (f[1] if f[0] > 0 else 0) + 50, f[2]]
        neg(lambda e: live(e) and e["identity_expected"], lambda e: bump(e, "out"), "C16.identity")
        neg(live, lambda e: bump(e, "fun0"), "C16.to_function_interpolates")
        neg(live, lambda e: bump(e, "out_none"), "C16.default_condition")
    warned = sum(1 for e in evs if e.get("warned"))
    c.rule = ("seeded random series of 5..200 points (uniform and not, smooth random walks and noisy ones, affine data) with s in {0} U [1e-4, 1e2], "
              "requested on a fresh Weaver or after a history of up to 3 other operations (scale / shift / append / normalise), each run through Weaver.smooth(s), Weaver.smooth(None) vs the explicit default len(y)*var(y), to_function()(x) and "
              "process.spline_smooth directly. Clauses judged by TLC: x and length unchanged, summed squared deviation <= s (+0.2%% + projection "
              "slack) on the recorded deviations, identity for s = 0 and for affine data, default condition, to_function(0) interpolates. Runs in "
              "which FITPACK warns are discarded (%d this run). The environment constraint's lemmas are model-checked on a small lattice "
              "(MC_Env). non-trivial = s > 0 on non-affine data without warning; distinct by case" % warned)
    c.coverage_extra = {"random_cases": len(cases), "discarded_fitpack_warnings": warned}
    c.assumptions = ["TLC 1.8, CommunityModules Json/IOUtils",
                     "the spline values themselves come from FITPACK (environment step): constrained by the stated clauses, not recomputed",
                     "the harness rescales the recorded deviations to integers (largest = 1000) and the smoothing condition to the same squared units; "
                     "the inequality is evaluated by TLC with a slack bounding the projection error"]
    return c.finish(exhaustive=False)


main(run)
