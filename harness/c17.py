"""C17 - array helpers, interval view and block averaging keep their contracts."""
import copy
from fractions import Fraction

from driver import Check, main
from fnexec import execute, NONE


def R(v):
    f = Fraction(v)
    return [f.numerator, f.denominator]


def expand(a, x, n, dirn, rng=None):
    """All function-level cases derived from one lattice point (a, x, n, dir)."""
    A = [R(v) for v in a]
    X = [R(v) for v in x]
    L = len(a)
    out = [{"fn": "oversample", "a": A, "num": n}]
    ends = [(R(-5), R(Fraction(7, 2))), (R(0), R(0))]          # explicit end values, incl. an explicit 0 (falsy) on both sides
    if L > n:
        ends += [(NONE, NONE), (R(-5), NONE), (NONE, R(Fraction(7, 2))), (R(0), NONE), (NONE, R(0))]
    elif dirn == "both":
        ends += [(R(-5), NONE)]
    for ls, rs in ends:
        out.append({"fn": "extend", "a": A, "n": n, "dir": dirn, "lstart": ls, "rstop": rs})
    if L >= 2:
        for per in (False, True):
            out.append({"fn": "append", "x": X, "y": A, "periodic": per})
            out.append({"fn": "append", "x": X, "y": A, "periodic": per, "pflag": "np" if L % 2 else "int"})
    out.append({"fn": "integral", "x": X, "y": A})
    for k in range(0, L + 1):
        out.append({"fn": "sum_over", "a": A, "idx": [0, k, L] if k % 2 == 0 else [k, L]})
    ij = [(i, j) for i in range(0, (L + n - 1) // n + 1) for j in range(-n, n) if -L <= i * n + j < L]
    picks = [ij[0], ij[-1], ij[len(ij) // 2]] + [p for p in ij if p[0] >= 1 and p[1] < 0][:2] + [p for p in ij if p[0] >= 1 and p[1] < 0][-1:]
    sets = [[p[0], p[1], R(Fraction(7 + 2 * k, 2))] for k, p in enumerate(picks)]
    out.append({"fn": "interval", "a": A, "n": n, "num": n, "get_ij": [list(p) for p in ij], "sets": sets})
    out.append({"fn": "average", "x": X, "y": A, "n": n})
    return out


def random_points(rng, count):
    for _ in range(count):
        L = rng.randint(1, 50)
        a = [Fraction(rng.randint(-800, 800), 8) for _ in range(L)]
        x, t = [], Fraction(rng.randint(-50, 50))
        jitter = rng.random() < 0.15          # almost evenly spaced (2^-20 of the step)
        for _ in range(L):
            x.append(t)
            t += (1 + Fraction(rng.choice([-1, 0, 1, 2]), 2 ** 20)) if jitter else Fraction(rng.choice([1, 2, 3, 5, 8, 16]), 4)
        yield a, x, rng.randint(1, 16), rng.choice(["both", "left", "right"])


def run():
    c = Check("C17")
    r = c.model("MC_Arrays", "MC_Arrays_%s.cfg" % c.tier)
    cases = []
    for j in r.json_lines:
        cases += expand(j["a"], j["x"], j["n"], j["dir"])
    lattice = len(cases)
    for a, x, n, d in random_points(c.rng, 2000 if c.thorough else 300):
        cases += expand(a, x, n, d)
    if c.replay_path:
        import json
        ev = json.load(open(c.replay_path))["event"]
        cases = [{k: v for k, v in ev.items() if k in ("fn", "a", "x", "y", "n", "num", "dir", "lstart", "rstop", "periodic", "idx", "sets", "pflag")}]
        if ev["fn"] == "interval":
            cases[0]["get_ij"] = [g[:2] for g in ev["gets"]]
    evs = c.run_cases(cases, execute)
    for e in evs:
        a = e.get("a", e.get("y"))
        n = e.get("n", e.get("num", 2))
        if len(a) >= 3 and n >= 2 and len(set(map(tuple, a))) >= 2:
            c.count_nontrivial((e["fn"], str(a), n, e.get("dir"), str(e.get("lstart")), str(e.get("idx")), e.get("periodic")))
    # negative controls: one corrupted output per family
    def corrupt(fn, key, prefix, pick=lambda v: v):
        def mut(e):
            v = e[key]
            while isinstance(v[0][0], list):
                v = v[0]
            v[0] = [v[0][0] if v[0][0] in (-1, 1) else 1, v[0][1] + 7, v[0][2]]
        c.negative_from(evs, lambda e: e["fn"] == fn and e["outcome"] == "ok" and e[key] and pick(e[key]), mut, prefix)
    if not c.replay_path:
        corrupt("oversample", "out_lin", "C17.oversample_linspace")
        corrupt("extend", "out_const", "C17.extend_constant")
        corrupt("average", "outy", "C17.average_y")
        corrupt("interval", "to2d", "C17.to_2d_array")
        corrupt("append", "outx", "C17.append_one_sample")
        corrupt("interval", "iter", "impl.interval_iter")
        corrupt("interval", "after_fsets", "impl.interval_flat_set")
        corrupt("interval", "ext_const", "C17.interval_extend_constant")
    c.rule = ("one lattice point = (array a over {-2,0,1,3} or random dyadic values, derived increasing abscissa x, n, "
              "direction); each expands to calls of oversample_linspace/piecewise, extend_linspace (default and explicit "
              "lstart/rstop)/extend_constant, append_one_sample, rectangle/trapezoid integral (direct and dispatcher), "
              "sum_over_indices, IntervalArray get/set for every valid [i,j] incl. negative j, to_2d_array(+closed), "
              "oversample, process.average; beyond the property (drift clauses only): flat integer indices, iteration, repr, "
              "index arity, extend_linspace / extend_constant through the view, list input; non-trivial = >= 3 elements, >= 2 distinct values, n >= 2; distinct by "
              "(function, array, n, direction, end values, index list)")
    c.coverage_extra = {"lattice_cases_from_tlc": lattice, "random_cases": len(cases) - lattice}
    c.assumptions = ["TLC 1.8, CommunityModules Json/IOUtils", "float results projected to 1e-9 fixed point (round to nearest)",
                     "inputs are dyadic rationals / small integers, exactly representable as floats"]
    return c.finish(exhaustive=False)


main(run)
