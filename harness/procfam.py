"""Cases for the process.py families (C11-C14): mapping of MC_Process emissions to executor cases, plus
seeded random series on a finer dyadic lattice (harness-originated traces)."""
from fractions import Fraction

from fnexec import NONE, NONEINT


def R(v):
    f = Fraction(v)
    return [f.numerator, f.denominator]


NB = -999999


def H(v):
    return NONE if v == NB else R(Fraction(v, 2))


def from_emission(j):
    """One emitted (series, op) -> list of executor cases."""
    X = [R(Fraction(v, 2)) for v in j["x2"]]
    Y = [R(v) for v in j["y"]]
    op = j["op"]
    k = op["k"]
    out = []
    if k == "repeat":
        out.append({"fn": "repeat", "x": X, "y": Y, "r": op["a"]})
        if op["b"] > 1 or op["a"] == 1:
            out.append({"fn": "repeat2", "x": X, "y": Y, "a": op["a"], "b": op["b"]})
        if op["b"] == 1 and all(r[1] == 1 for r in X):
            out.append({"fn": "repeat", "x": X, "y": Y, "r": op["a"], "container": "int"})
            out.append({"fn": "repeat", "x": X, "y": Y, "r": op["a"], "container": "int8" if op["a"] % 2 else "uint8"})
    elif k == "truncate":
        if op["ratio"]:
            out.append({"fn": "truncate", "x": X, "y": Y, "left": R(Fraction(op["l2"], 4)), "right": R(Fraction(op["r2"], 4)), "lr": True, "rr": True})
        else:
            out.append({"fn": "truncate", "x": X, "y": Y, "left": H(op["l2"]), "right": H(op["r2"]), "lr": False, "rr": False})
    elif k == "slice_value":
        out.append({"fn": "slice_value", "x": X, "y": Y, "start": H(op["s2"]), "stop": H(op["e2"]), "step": op["step"],
                    "explicit_none": op["step"] == 2})
    elif k == "slice_index":
        out.append({"fn": "slice_index", "x": X, "y": Y, "start": op["s"], "stop": op["e"], "step": op["step"]})
        if op["step"] == 1:
            out.append({"fn": "truncate_index", "x": X, "y": Y, "start": op["s"], "stop": op["e"]})
    elif k == "interp":
        q = [R(Fraction(v, 2)) for v in op["q2"]]
        # non-integer values so that an integer-typed result buffer would show
        Yh = [R(Fraction(2 * v + 1, 4)) for v in j["y"]]
        out.append({"fn": "interp", "x": X, "y": Y, "q": q, "left": NONE if op["left"] == NB else R(op["left"])})
        if all(r[1] == 1 for r in q):       # the same grid handed over with an integer dtype / as a list of ints
            out.append({"fn": "interp", "x": X, "y": Yh, "q": q, "left": NONE if op["left"] == NB else R(Fraction(op["left"] * 2 + 1, 2)),
                        "qcontainer": "int" if len(q) % 2 else "intlist", "xcontainer": "int" if all(r[1] == 1 for r in X) else "array"})
    elif k == "winterp":
        out.append({"fn": "winterp", "mode": "n", "x": X, "y": Y, "n": op["n"], "method": "linear"})
        for me in (("constant", "cubic", "spline") if len(X) >= 4 else ("constant",)):
            out.append({"fn": "winterp", "mode": "n", "x": X, "y": Y, "n": op["n"], "method": me})
    elif k == "wgrid":
        q = [R(Fraction(v, 2)) for v in op["q2"]]
        out.append({"fn": "winterp", "mode": "grid", "x": X, "y": Y, "q": q, "method": "linear"})
        out.append({"fn": "winterp", "mode": "grid", "x": X, "y": Y, "q": q, "qcontainer": "list", "method": "linear", "explicit_method": True})
        out.append({"fn": "winterp", "mode": "grid", "x": X, "y": Y, "q": q, "method": "linear", "also_n": 2 + len(q) % 5})
        if len(q) >= 3:         # same range, other end points: reversed, rotated (refused)
            out.append({"fn": "winterp", "mode": "grid", "x": X, "y": Y, "q": q[::-1], "method": "linear"})
            out.append({"fn": "winterp", "mode": "grid", "x": X, "y": Y, "q": q[1:] + q[:1] if len(q) % 2 else q[-1:] + q[:-1], "method": "linear"})
        if len(X) >= 4:
            out.append({"fn": "winterp", "mode": "grid", "x": X, "y": Y, "q": q, "method": "cubic"})
            out.append({"fn": "winterp", "mode": "grid", "x": X, "y": Y, "q": q, "method": "constant"})
        # end points that miss by very little (absolutely, or relative to a large abscissa): still "different end points"
        if q[0] == X[0] and q[-1] == X[-1] and len(q) >= 2:
            near = lambda r: R(Fraction(r[0], r[1]) * (1 + Fraction(1, 2 ** 18)) if r[0] else Fraction(1, 2 ** 27))
            out.append({"fn": "winterp", "mode": "grid", "x": X, "y": Y, "q": q[:-1] + [near(q[-1])], "method": "linear"})
            out.append({"fn": "winterp", "mode": "grid", "x": X, "y": Y, "q": [near(q[0])] + q[1:] if Fraction(*near(q[0])) < Fraction(*q[1]) else q[:-1] + [near(q[-1])],
                        "method": "constant", "qcontainer": "list"})
            big = Fraction(2 ** 17)                      # the same series far from the origin (time stamps)
            XB, qb = [R(Fraction(*r) + big) for r in X], [R(Fraction(*r) + big) for r in q]
            out.append({"fn": "winterp", "mode": "grid", "x": XB, "y": Y, "q": qb[:-1] + [R(Fraction(*qb[-1]) + Fraction(1, 2))], "method": "linear"})
            out.append({"fn": "winterp", "mode": "grid", "x": XB, "y": Y, "q": qb, "method": "linear"})
    elif k == "trend":
        out.append({"fn": "trend", "x": X, "y": Y, "c": [R(v) for v in op["c"]], "normalized": op["normalized"]})
        out.append({"fn": "linear_trend", "x": X, "y": Y, "a": R(op["c"][1]), "normalized": op["normalized"]})
    elif k == "normalize":
        if len(set(j["y"])) > 1:
            out.append({"fn": "normalize", "axis": "y", "a": Y, "other": X, "lo": R(op["lo"]), "hi": R(op["hi"])})
        out.append({"fn": "normalize", "axis": "x", "a": X, "other": Y, "lo": R(op["lo"]), "hi": R(op["hi"])})
    elif k == "shiftscale":
        out.append({"fn": "shiftscale", "x": X, "y": Y, "op": op["o"], "v": R(Fraction(op["v2"], 2))})
    return out


def rseries(rng, lo=2, hi=40, den=8):
    n = rng.randint(lo, hi)
    t = Fraction(rng.randint(-40 * den, 40 * den), den)
    uniform = rng.random() < 0.3
    g0 = Fraction(rng.randint(1, 3 * den), den)
    xs = []
    for _ in range(n):
        xs.append(t)
        t += g0 if uniform else Fraction(rng.randint(1, 3 * den), den)
    ys = [Fraction(rng.randint(-20 * den, 20 * den), den) for _ in range(n)]
    return xs, ys


def random_cases(family, rng, count):
    out = []
    for _ in range(count):
        intcase = rng.random() < 0.2       # integer-valued series handed over in integer-typed arrays / lists (bounds stay fractional)
        first = len(out)
        xs, ys = rseries(rng, den=1) if intcase else rseries(rng)
        X, Y = [R(v) for v in xs], [R(v) for v in ys]
        n = len(xs)
        span = xs[-1] - xs[0]
        if family == "repeat":
            a, b = rng.randint(1, 12), rng.randint(1, 4)
            out.append({"fn": "repeat", "x": X, "y": Y, "r": a, "container": rng.choice(["array", "list", "series"])})
            if rng.random() < 0.2:
                out[-1]["r_kind"] = "np"
            if rng.random() < 0.4:
                # integer abscissae held in a narrow integer array whose range the extension leaves (hours, sample numbers)
                t, ix = rng.choice([0, 0, 1, 24, 100, -100, -20]), []
                for _ in range(rng.randint(2, 12)):
                    ix.append(t)
                    t += rng.choice([1, 1, 2, 5, 10, 30])
                out.append({"fn": "repeat", "x": [R(v) for v in ix], "y": [R(Fraction(rng.randint(0, 100))) for _ in ix], "r": rng.randint(2, 12),
                            "container": rng.choice(["int8", "uint8", "int16", "int32"])})
            if rng.random() < 0.3:
                # almost, but not exactly, evenly spaced (jitter of 2^-20 relative to the step): the spacing pattern must survive
                t, jx = Fraction(rng.randint(-8, 8)), []
                for _ in range(rng.randint(3, 9)):
                    jx.append(t)
                    t += 1 + Fraction(rng.choice([-1, 0, 0, 1, 2]), 2 ** 20)
                if len(set(b_ - a_ for a_, b_ in zip(jx, jx[1:]))) > 1:
                    out.append({"fn": "repeat", "x": [R(v) for v in jx], "y": [R(Fraction(rng.randint(-20, 20), 4)) for _ in jx], "r": rng.randint(2, 6)})
            if n >= 3 and rng.random() < 0.3:
                # Weaver.repeat after the series was resampled onto a grid with the SAME number of points (the reference keeps
                # the old grid): exact linear interpolation on the equally spaced grid
                hx = [xs[0] + span * Fraction(i, n - 1) for i in range(n - 1)] + [xs[-1]]
                hy = []
                for q in hx:
                    j = max(i for i in range(n) if xs[i] <= q)
                    hy.append(ys[j] if j == n - 1 else ys[j] + (ys[j + 1] - ys[j]) * (q - xs[j]) / (xs[j + 1] - xs[j]))
                if all(abs(v.numerator) < 10 ** 7 and v.denominator < 10 ** 7 for v in hx + hy):
                    out.append({"fn": "repeat", "x0": X, "y0": Y, "x": [R(v) for v in hx], "y": [R(v) for v in hy], "r": rng.choice([1, 2, 3, 4]),
                                "pre": [{"k": "interpolate_n", "n": n, "method": "linear"}]})
            if rng.random() < 0.3:
                # Weaver(None, y): abscissae generated from the sample positions, then moved by operations that leave no trace
                # in the object (shift, cut by index, both) before the repeat (seed C12j); every second one repeats at once
                m = rng.randint(2, 9)
                py = [Fraction(rng.randint(-20, 20), 4) for _ in range(m)]
                px = [Fraction(i) for i in range(m)]
                sh, st = Fraction(rng.choice([3, -10, 1, 7, -2]), rng.choice([1, 1, 2])), rng.randint(1, max(1, m - 2))
                pre, qx, qy = [], px, py
                for kind_ in rng.choice([["shift_x"], ["truncate_index"], ["scale_x", "shift_x"], ["shift_x", "truncate_index"], []]):
                    if kind_ == "shift_x":
                        pre.append({"k": "shift_x", "v": R(sh)})
                        qx = [v + sh for v in qx]
                    elif kind_ == "scale_x":
                        pre.append({"k": "scale_x", "v": R(Fraction(2))})
                        qx = [v * 2 for v in qx]
                    elif len(qx) - st >= 2:
                        pre.append({"k": "truncate_index", "start": st, "stop": len(qx)})
                        qx, qy = qx[st:], qy[st:]
                out.append({"fn": "repeat", "x0": [R(v) for v in px], "y0": [R(v) for v in py], "x": [R(v) for v in qx], "y": [R(v) for v in qy],
                            "r": rng.choice([1, 2, 3, 5, 12]), "pre": pre, "xnone": True})
            if rng.random() < 0.3:
                # decimal abscissae (tenths, twentieths, hundredths): the period is not representable in binary
                den = rng.choice([10, 20, 100, 5])
                t, dx = Fraction(rng.randint(-30, 30), den), []
                for _ in range(rng.randint(2, 8)):
                    dx.append(t)
                    t += Fraction(rng.choice([1, 1, 2, 3, 5, 7]), den)
                out.append({"fn": "repeat", "x": [R(v) for v in dx], "y": [R(Fraction(rng.randint(-20, 20), 4)) for _ in dx], "r": rng.choice([2, 3, 6, 7, 12, 12, 5])})
                out.append({"fn": "repeat2", "x": [R(v) for v in dx], "y": [R(Fraction(rng.randint(-20, 20), 4)) for _ in dx], "a": rng.choice([2, 3]), "b": rng.choice([2, 3, 4])})
            if a * b <= 12:
                out.append({"fn": "repeat2", "x": X, "y": Y, "a": a, "b": b})
        elif family == "truncate":
            def bound():
                m = rng.random()
                if m < 0.4:
                    return rng.choice(xs)
                if m < 0.8:
                    return xs[0] + span * Fraction(rng.randint(-4, 20), 16)
                return rng.choice([xs[0], xs[-1], xs[0] - 1, xs[-1] + 1])
            l, r = bound(), bound()
            if rng.random() < 0.85 and l > r:
                l, r = r, l
            out.append({"fn": "truncate", "x": X, "y": Y, "left": R(l), "right": R(r), "lr": False, "rr": False})
            lr, rr = rng.random() < 0.5, rng.random() < 0.5
            lq, rq = Fraction(rng.randint(-2, 8), 8), Fraction(rng.randint(0, 10), 8)
            out.append({"fn": "truncate", "x": X, "y": Y, "left": R(lq if lr else xs[0] + lq * span), "right": R(rq if rr else xs[0] + rq * span), "lr": lr, "rr": rr})
            # abscissae inside [0, 1] (fractions of a day): ratios and positions look alike, the flags must decide (seed C08j)
            ux = [Fraction(1, 4) + (v - xs[0]) / span / 2 for v in xs]
            if max(v.denominator for v in ux) <= 4096:
                lq3, rq3 = Fraction(rng.randint(0, 3), 16), Fraction(rng.randint(13, 16), 16)
                out.append({"fn": "truncate", "x": [R(v) for v in ux], "y": Y, "left": R(lq3), "right": R(rq3), "lr": True, "rr": True})
                out.append({"fn": "truncate", "x": [R(v) for v in ux], "y": Y, "left": R(Fraction(1, 4) + lq3 / 2), "right": R(rq3), "lr": False, "rr": True})
            # the same request after the series was made denser than its reference (interpolate(m), m - 1 a power of two: the
            # grid and the bounds stay exact): working and reference are cut with the same bounds, not the same indices
            m = rng.choice([5, 9, 17])
            gx = [xs[0] + span * Fraction(j, m - 1) for j in range(m)]
            ysf = [Fraction(*v) for v in Y]
            def lin(t):
                k = min(max(i for i in range(n) if xs[i] <= t), n - 2)
                return ysf[k] + (ysf[k + 1] - ysf[k]) * (t - xs[k]) / (xs[k + 1] - xs[k])
            gy = [lin(t) for t in gx]
            if n >= 2 and max(v.denominator for v in gx + gy) <= 4096:
                lq2, rq2 = Fraction(rng.randint(0, 7), 8), Fraction(rng.randint(1, 9), 8)
                if rng.random() < 0.5:      # bounds on samples of the denser series that the reference does not have
                    lq2, rq2 = Fraction(rng.randrange(m), m - 1), Fraction(rng.randrange(m), m - 1)
                lr2, rr2 = rng.random() < 0.5, rng.random() < 0.5
                out.append({"fn": "truncate", "x": [R(v) for v in gx], "y": [R(v) for v in gy], "rx0": X, "ry0": Y,
                            "pre": [{"k": "interpolate_n", "n": m, "method": "linear"}],
                            "left": R(lq2 if lr2 else xs[0] + lq2 * span), "right": R(rq2 if rr2 else xs[0] + rq2 * span), "lr": lr2, "rr": rr2})
            # ... and after the series was made COARSER than its reference (interpolate(2) / interpolate(3)): bounds inside the outer
            # gaps of the working series remove none of its samples, but the reference must still be cut (seed C11k: early return
            # when "nothing was truncated")
            if n >= 4 and rng.random() < 0.5:
                mc = rng.choice([2, 3])
                cx = [xs[0] + span * Fraction(j, mc - 1) for j in range(mc)]
                cy = [lin(t) for t in cx]
                if max(v.denominator for v in cx + cy) <= 4096:
                    lq4, rq4 = Fraction(rng.randint(1, 6), 16), Fraction(rng.randint(10, 15), 16)
                    lr4, rr4 = rng.random() < 0.5, rng.random() < 0.5
                    out.append({"fn": "truncate", "x": [R(v) for v in cx], "y": [R(v) for v in cy], "rx0": X, "ry0": Y,
                                "pre": [{"k": "interpolate_n", "n": mc, "method": "linear"}],
                                "left": R(lq4 if lr4 else xs[0] + lq4 * span), "right": R(rq4 if rr4 else xs[0] + rq4 * span), "lr": lr4, "rr": rr4})
            s, t = sorted([rng.randrange(n), rng.randrange(n)])
            start = NONE if rng.random() < 0.2 else R(xs[s]) if rng.random() < 0.85 else R(xs[s] + Fraction(1, 16))
            stop = NONE if rng.random() < 0.2 else R(xs[t]) if rng.random() < 0.85 else R(xs[t] + Fraction(1, 16))
            out.append({"fn": "slice_value", "x": X, "y": Y, "start": start, "stop": stop, "step": rng.choice([1, 1, 2, 3])})
            out.append({"fn": "slice_index", "x": X, "y": Y, "start": rng.randint(-1, n), "stop": rng.choice([NONEINT, rng.randint(-n - 1, n + 1)]),
                        "step": rng.choice([1, 2, 3, -1, -2])})
            out.append({"fn": "truncate_index", "x": X, "y": Y, "start": rng.randint(-1, n), "stop": rng.choice([NONEINT, rng.randint(-n - 1, n + 1)])})
        elif family == "interp":
            q = sorted(rng.choice([rng.choice(xs), xs[0] + span * Fraction(rng.randint(-4, 20), 16)]) for _ in range(rng.randint(1, 12)))
            out.append({"fn": "interp", "x": X, "y": Y, "q": [R(v) for v in q], "left": rng.choice([NONE, R(Fraction(rng.randint(-9, 9), 2))])})
            # the same request after a short history of domain operations (the grid must span the CURRENT range)
            sh, sc = Fraction(rng.randint(-20, 20), 2), rng.choice([Fraction(1, 2), 2, 3])
            hx = [(v + sh) * sc for v in xs]
            out.append({"fn": "winterp", "mode": "n", "x0": X, "y0": Y, "x": [R(v) for v in hx], "y": Y,
                        "pre": [{"k": "shift_x", "v": R(sh)}, {"k": "scale_x", "v": R(sc)}], "n": rng.choice([2, 3, 5, 9, n]), "method": "linear"})
            out.append({"fn": "winterp", "mode": "n", "x": X, "y": Y, "n": rng.choice([2, 3, 5, 9, 17, 33, n, 2 * n + 1]),
                        "method": rng.choice(["linear", "linear", "constant", "cubic", "spline"]) if n >= 4 else "linear"})
            if rng.random() < 0.3:
                # the request follows a REFUSED one (a grid that misses an end point, as long as the series or shorter; or an unknown
                # method) whose ValueError the caller caught: the refused grid must have left no trace
                bad = [xs[0] + span * Fraction(1, 16)] + [xs[0] + span * Fraction(k, 8) for k in range(2, rng.choice([4, 7]))] + [xs[-1]]
                if rng.random() < 0.4:
                    bad = [xs[0] + span * Fraction(1, 16)] + list(xs[1:])
                tr = rng.choice([{"k": "interpolate_grid", "q": [R(v) for v in bad], "method": "linear"},
                                 {"k": "interpolate_grid", "q": [R(v) for v in bad], "method": "constant", "qcontainer": "list"},
                                 {"k": "interpolate_n", "n": rng.choice([3, n]), "method": "nearest"}])
                out.append({"fn": "winterp", "mode": "n", "x0": X, "y0": Y, "x": X, "y": Y, "pre": [{"k": "try", "op": tr}],
                            "n": rng.choice([2, 3, 5, 9, n]), "method": rng.choice(["linear", "constant"])})
            # ... and after the series has been made denser than its reference and then cut (seed C13i: a grid anchored on the
            # reference series): interpolate(m), m - 1 a power of two, then truncate_by_index / truncate_by_value - the judge gets
            # the exact rational series after that history
            m = rng.choice([5, 9, 17])
            gx = [xs[0] + span * Fraction(j, m - 1) for j in range(m)]
            ysf = [Fraction(*v) for v in Y]
            def lin(t):
                k = max(i for i in range(n) if xs[i] <= t)
                k = min(k, n - 2)
                return ysf[k] + (ysf[k + 1] - ysf[k]) * (t - xs[k]) / (xs[k + 1] - xs[k])
            gy = [lin(t) for t in gx]
            a = rng.randrange(0, m - 2)
            b = rng.randrange(a + 2, m + 1)
            if (a, b) != (0, m) and max(v.denominator for v in gx + gy) <= 4096:
                cut = {"k": "truncate_index", "start": a, "stop": b} if rng.random() < 0.5 else \
                    {"k": "truncate_value", "left": R(gx[a]), "right": R(gx[b - 1]), "lr": False, "rr": False}
                out.append({"fn": "winterp", "mode": "n", "x0": X, "y0": Y, "x": [R(v) for v in gx[a:b]], "y": [R(v) for v in gy[a:b]],
                            "pre": [{"k": "interpolate_n", "n": m, "method": "linear"}, cut],
                            "n": rng.choice([2, 3, 5, 9, b - a]), "method": "linear"})
        elif family == "pointwise":
            c = [R(Fraction(rng.randint(-8, 8), 4)) for _ in range(3)]
            xs2, ys2 = rseries(rng, 2, 12, den=2)
            out.append({"fn": "trend", "x": [R(v) for v in xs2], "y": [R(v) for v in ys2], "c": c, "normalized": rng.random() < 0.5,
                        "container": rng.choice(["array", "list", "series"])})
            if rng.random() < 0.4:
                # the same polynomial written in coefficient form with a reduction (np.dot(c, t ** [0, 1, 2])): a legal scalar callable
                # that returns ONE number even when it is handed a whole axis of exactly three samples (seed C14k: "vectorised" trend)
                xs3, ys3 = rseries(rng, 3, 3 if rng.random() < 0.7 else 6, den=2)
                out.append({"fn": "trend", "x": [R(v) for v in xs3], "y": [R(v) for v in ys3], "c": c, "normalized": rng.random() < 0.5, "form": "dot"})
            # the same request after the series was made denser than its reference and then cut (seed C14i: the span of the
            # reference used for the normalised argument)
            n2 = len(xs2)
            m = rng.choice([5, 9, 17])
            sp2 = xs2[-1] - xs2[0]
            gx = [xs2[0] + sp2 * Fraction(j, m - 1) for j in range(m)]
            def lin2(t):
                k = min(max(i for i in range(n2) if xs2[i] <= t), n2 - 2)
                return ys2[k] + (ys2[k + 1] - ys2[k]) * (t - xs2[k]) / (xs2[k + 1] - xs2[k])
            gy = [lin2(t) for t in gx]
            a2 = rng.randrange(0, m - 2)
            b2 = rng.randrange(a2 + 2, m + 1)
            if n2 >= 4 and (a2, b2) != (0, m) and max(v.denominator for v in gx + gy) <= 1024:
                out.append({"fn": "trend", "x": [R(v) for v in gx[a2:b2]], "y": [R(v) for v in gy[a2:b2]], "rx0": [R(v) for v in xs2], "ry0": [R(v) for v in ys2],
                            "pre": [{"k": "interpolate_n", "n": m, "method": "linear"}, {"k": "truncate_index", "start": a2, "stop": b2}],
                            "c": c, "normalized": rng.random() < 0.8})
            if rng.random() < 0.4:
                # integer abscissae in a (possibly narrow / unsigned) integer array and a callable written with integer coefficients
                ix, t = [], rng.choice([0, 1, 3, 100, 200])
                for _ in range(rng.randint(2, 10)):
                    ix.append(t)
                    t += rng.choice([1, 2, 5])
                out.append({"fn": "trend", "x": [R(v) for v in ix], "y": [R(Fraction(rng.randint(-20, 20), 4)) for _ in ix],
                            "c": [R(rng.randint(-9, 9)), R(rng.choice([-3, -1, 1, 2])), R(rng.choice([0, 0, 1, -1, 2]))], "normalized": False, "intcoef": True,
                            "xcontainer": rng.choice(["uint8", "int8", "uint16", "int16", "int32", "int"])})
            lo = Fraction(rng.randint(-20, 20), 4)
            hi = lo + Fraction(rng.randint(1, 40), 4)
            if len(set(ys)) > 1:
                out.append({"fn": "normalize", "axis": "y", "a": Y, "other": X, "lo": R(lo), "hi": R(hi)})
            out.append({"fn": "normalize", "axis": "x", "a": X, "other": Y, "lo": R(lo), "hi": R(hi)})
            if rng.random() < 0.5 and len(set(ys)) > 1:
                out.append({"fn": "normalize", "axis": "y", "a": Y, "other": X, "lo": R(lo), "hi": R(hi), "aoff": [rng.choice([-1, 1]), rng.choice([17, 20])]})
            v = Fraction(rng.choice([-1, 1]) * rng.randint(1, 64), 8)
            out.append({"fn": "shiftscale", "x": X, "y": Y, "op": rng.choice(["shift_x", "shift_y", "scale_x", "scale_y"]), "v": R(v)})
            # the same after a history of earlier shifts / scales (every call acts on the current samples by its own argument)
            hx, hy, pre = list(xs), list(ys), []
            for _ in range(rng.randint(1, 3)):
                o = rng.choice(["shift_x", "shift_y", "scale_x", "scale_y", "scale_x", "scale_y"])
                pv = Fraction(rng.choice([-3, -1, 2, 3, 5]), rng.choice([1, 2])) if o in ("shift_x", "shift_y", "scale_y") else Fraction(rng.choice([2, 3, 1, 5]), rng.choice([1, 2]))
                pre.append({"k": o, "v": R(pv)})
                if o == "shift_x":
                    hx = [t + pv for t in hx]
                elif o == "shift_y":
                    hy = [t + pv for t in hy]
                elif o == "scale_x":
                    hx = [t * pv for t in hx]
                else:
                    hy = [t * pv for t in hy]
            o2 = rng.choice(["scale_x", "scale_y", "scale_x", "scale_y", "shift_x", "shift_y"])
            v2 = Fraction(rng.choice([2, 3, 1, 4]), rng.choice([1, 2])) * (rng.choice([-1, 1]) if o2 != "scale_x" else 1)
            out.append({"fn": "shiftscale", "x0": X, "y0": Y, "x": [R(t) for t in hx], "y": [R(t) for t in hy], "pre": pre, "op": o2, "v": R(v2)})
        if intcase:
            for k in out[first:]:
                if k["fn"] in ("truncate", "slice_value", "slice_index", "truncate_index", "normalize", "shiftscale", "linear_trend") \
                        and "container" not in k and "pre" not in k and all(r[1] == 1 for r in k.get("x", k.get("a"))):
                    k["container"] = rng.choice(["int", "int32", "list"])
    for k in out:       # the same repeat in a much smaller time unit (an exact power-of-two change of scale)
        if k["fn"] == "repeat" and "x0" not in k and k.get("container", "array") == "array" and rng.random() < 0.12:
            k["xscl"] = rng.choice([-34, -40, -50])
    # the same requests far from the origin of the time axis (epoch seconds, 2^40): an exact translation, see fnexec.xoff
    for k in out:
        if k["fn"] in ("truncate", "slice_value", "repeat", "interp") and "x0" not in k and "pre" not in k and "xscl" not in k and rng.random() < 0.15 \
                and k.get("container", "array") in ("array", "list", "series") and "xcontainer" not in k and "qcontainer" not in k \
                and all(r[1] in (1, 2, 4, 8, 16, 32, 64, 128, 256) for r in k["x"]):        # translated abscissae must stay exactly representable
            k["xoff"] = [rng.choice([-1, 1]), rng.choice([31, 40])]
    return out


CASE_KEYS = ("fn", "x", "y", "r", "a", "b", "left", "right", "lr", "rr", "start", "stop", "step", "explicit_none", "q", "n", "mode",
             "qcontainer", "xcontainer", "explicit_method", "x0", "y0", "rx0", "ry0", "pre", "c", "normalized", "axis", "other", "lo", "hi", "op", "v", "container", "method", "m", "b", "xoff", "r_kind", "intcoef", "also_n", "xscl", "aoff")   # x0 / y0 / pre are already listed


def case_of_event(ev):
    return {k: ev[k] for k in CASE_KEYS if k in ev}


def run_family(pid, family, rule, negatives, nrandom=(400, 4000), nontrivial=lambda e: True, prefixes=None, extra=None):
    import copy
    import json
    from driver import Check
    from fnexec import execute
    c = Check(pid)
    r = c.model("MC_Process", "MC_Process_%s_%s.cfg" % (family, c.tier))
    cases = []
    for j in r.json_lines:
        cases += from_emission(j)
    lattice = len(cases)
    cases += random_cases(family, c.rng, nrandom[1] if c.thorough else nrandom[0])
    if extra:
        cases += extra(r.json_lines, c.rng, c.thorough)
    if c.replay_path:
        cases = [case_of_event(json.load(open(c.replay_path))["event"])]
    evs = c.run_cases(cases, execute)
    for e in evs:
        if nontrivial(e):
            c.count_nontrivial(json.dumps(case_of_event(e), sort_keys=True))
    if not c.replay_path:
        for fn, key, prefix in negatives:
            def mut(e, key=key):
                v = e[key][-1]
                e[key][-1] = [v[0] if v[0] in (-1, 1) else 1, v[1] + 13, v[2]]
            c.negative_from(evs, lambda e, fn=fn, key=key: e["fn"] == fn and e.get(key) and e.get("outcome", "ok") == "ok"
                            and e.get("w_outcome", "ok") == "ok", mut, prefix)
    c.rule = rule
    c.coverage_extra = {"lattice_cases_from_tlc": lattice, "random_cases": len(cases) - lattice}
    c.assumptions = ["TLC 1.8, CommunityModules Json/IOUtils",
                     "float results projected to 1e-9 fixed point; inputs are dyadic rationals (exact floats)",
                     "a fresh Weaver is built on copies of the inputs for the Weaver-level variant of each call"]
    return c.finish(own_prefixes=prefixes, exhaustive=False)
