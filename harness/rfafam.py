"""Case generators for the recreate-from-average checks (C04-C07)."""
from fractions import Fraction

WINDOW = ["LinearFixed", "LinearAdaptive", "ExpFixed", "ExpAdaptive"]
ALL = ["PiecewiseConstant", "LinearFixed", "LinearAdaptive", "ExpFixed", "ExpAdaptive", "CubicSpline"]


def R(v):
    f = Fraction(v)
    return [f.numerator, f.denominator]


def lattice_series(rng, mmin=2, mmax=6, vals=(-2, 0, 1, 3), den=1):
    m = rng.randint(mmin, mmax)
    t = Fraction(rng.choice([0, 2, -3, 5]))
    uniform = rng.random() < 0.3
    g0 = Fraction(rng.choice([1, 2, 3]), rng.choice([1, 2]))
    xs = []
    for _ in range(m):
        xs.append(t)
        t += g0 if uniform else Fraction(rng.choice([1, 2, 3]), rng.choice([1, 2]))
    mode = rng.random()
    if mode < 0.12:
        ys = [Fraction(rng.choice(vals))] * m                      # constant series
    elif mode < 0.5:
        ys = []                                                    # tie-rich
        for i in range(m):
            ys.append(ys[-1] if ys and rng.random() < 0.4 else Fraction(rng.choice(vals), den))
    else:
        ys = [Fraction(rng.choice(vals), den) for _ in range(m)]
    return xs, ys


def params(rng, strategy, n, exact=True):
    c = {"a": -1, "alpha": R(1), "beta": R(Fraction(1, 2)), "exp": R(2), "smooth": 1, "exact": exact}
    if strategy in WINDOW:
        if rng.random() < 0.5:
            c["a"] = rng.randint(0, n)
        else:
            c["alpha"] = R(Fraction(rng.randint(1, 8), 8)) if exact else R(Fraction(rng.randint(1, 64), 64))
    if strategy in ("ExpFixed", "ExpAdaptive"):
        c["beta"] = R(rng.choice([0, Fraction(1, 4), Fraction(1, 2), Fraction(3, 4), 1]))
        if exact:
            c["exp"] = R(rng.choice([1, 2, 3]))
        else:
            c["exp_f"] = rng.choice([rng.uniform(0.14, 4.0), rng.uniform(0.01, 0.14), rng.uniform(0.14, 1.0), 1.0, 1.5, 3.0])
            c["exp"] = R(Fraction(c["exp_f"]).limit_denominator(1000))     # informative only (exact = False)
    if strategy in ("LinearAdaptive", "ExpAdaptive"):
        if exact:
            c["smooth"] = rng.choice([1, 1, 2, 3])
        else:
            c["smooth_f"] = rng.uniform(0.05, 3.0)
            c["smooth"] = 0
    return c


def random_rfa_case(rng, exact=True, strategies=ALL, mmax=6, nmax=8, vals=(-2, 0, 1, 3), den=1):
    xs, ys = lattice_series(rng, 2, mmax, vals, den)
    s = rng.choice(strategies)
    n = rng.randint(2, nmax)
    c = {"fn": "rfa", "strategy": s, "x": [R(v) for v in xs], "y": [R(v) for v in ys], "n": n}
    c.update(params(rng, s, n, exact))
    c["container"] = rng.choice(["array", "array", "list", "int", "series"])
    if exact and rng.random() < 0.12:          # every optional parameter left at its documented default
        c.update({"a": -1, "alpha": R(1), "beta": R(Fraction(1, 2)), "exp": R(2), "smooth": 1, "defaults": True})
    if exact and s != "CubicSpline" and c["container"] in ("array", "list") and rng.random() < 0.12:
        c["yoff"] = [rng.choice([-1, 1]), rng.choice([17, 20])]       # values on a level far above their jumps (exact translation)
    if rng.random() < 0.15:                    # the factor handed over as a NumPy integer (a float is not a documented type for n)
        c["n_kind"] = rng.choice(["np", "np32"])
    return c


CASE_KEYS = ("fn", "strategy", "x", "y", "n", "a", "alpha", "beta", "exp", "exp_f", "smooth", "smooth_f", "exact", "container", "n_f", "n_kind", "defaults", "yoff")


def case_of_event(ev):
    return {k: ev[k] for k in CASE_KEYS if k in ev}


def from_emission(j):
    return {"fn": "rfa", "strategy": j["s"], "x": [R(v) for v in j["x"]], "y": [R(v) for v in j["y"]], "n": j["n"],
            "a": j["a"], "alpha": R(1), "beta": j["beta"], "exp": j["exp"], "smooth": j["smooth"], "exact": True}


def strip_for_tlc(e):
    return {k: v for k, v in e.items() if k not in ("exp_f", "smooth_f", "n_f", "e_f")}


def run_rfa_check(pid, rule, extra_cases, negatives, nontrivial, tags=None, mc=True):
    import copy
    import json
    from driver import Check
    from fnexec import execute
    c = Check(pid)
    cases = []
    if mc:
        r = c.model("MC_Rfa", "MC_Rfa_%s.cfg" % c.tier, timeout=3400)
        cases = [from_emission(j) for j in r.json_lines]
        # the non-window strategies on the same lattice series
        seen = set()
        for j in r.json_lines:
            key = (tuple(j["x"]), tuple(j["y"]), j["n"])
            if key in seen:
                continue
            seen.add(key)
            for s in ("PiecewiseConstant", "CubicSpline"):
                cases.append({"fn": "rfa", "strategy": s, "x": [R(v) for v in j["x"]], "y": [R(v) for v in j["y"]], "n": j["n"],
                              "a": -1, "alpha": R(1), "beta": R(0), "exp": R(1), "smooth": 1, "exact": True})
    lattice = len(cases)
    cases += extra_cases(c)
    if c.replay_path:
        ev = json.load(open(c.replay_path))["event"]
        cases = [{k: v for k, v in ev.items() if k in CASE_KEYS + ("x0", "x1", "y0", "y1", "e", "e_f")}]
    evs = c.run_cases(cases, execute)
    c.events = [strip_for_tlc(e) for e in evs]
    for e, full in zip(c.events, evs):
        e["tags"] = {"strategy": full.get("strategy"), "exp_f": full.get("exp_f", (full["exp"][0] / full["exp"][1]) if "exp" in full else None)}
        if nontrivial(full):
            c.count_nontrivial(json.dumps(case_of_event(full), sort_keys=True) if full["fn"] != "funfit" else json.dumps([full[k] for k in ("x0", "x1", "x", "y0", "y1", "e")] + [full.get("e_f")]))
    if not c.replay_path:
        for pred, mut, prefix in negatives:
            c.negative_from(c.events, pred, mut, prefix)
    c.rule = rule
    c.coverage_extra = {"lattice_cases_from_tlc": lattice, "harness_originated_cases": len(cases) - lattice}
    c.assumptions = ["TLC 1.8, CommunityModules Json/IOUtils", "float results projected to 1e-9 fixed point; lattice inputs are exact floats",
                     "adaptive windows actually used are observed through the public static get_adaptive_transition_points",
                     "SciPy's CubicSpline is an environment step (constrained, not recomputed)"]
    return c.finish(exhaustive=False)


def bump(e, key, idx=1, by=1000):
    f = e[key][idx]
    e[key][idx] = [f[0] if f[0] else 1, f[1], f[2] + by if f[2] < 90000 else f[2] - by]
