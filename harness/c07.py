"""C07 - recreation commutes with changes of units and acts locally."""
import copy
import json
from fractions import Fraction

from driver import Check, main
from fnexec import execute
from rfafam import R, lattice_series

ADAPTIVE = ("LinearAdaptive", "ExpAdaptive")


def from_emission(j):
    rel = j["rel"]
    cb = rel["cb"]
    c = {"fn": "rfa_rel", "rel": rel["k"], "strategy": cb["s"], "x": [R(v) for v in j["x"]], "y": [R(v) for v in j["y"]],
         "n": rel["n"], "a": rel["a"], "alpha": R(1), "beta": cb["beta"], "exp": cb["exp"], "smooth": cb["smooth"],
         "m": len(j["x"]), "j": 0, "radius": 2 if cb["s"] in ADAPTIVE else 1, "maps": [], "nonneg": True}
    out = []
    if rel["k"] == "affine":
        c["maps"] = rel["map"]
    elif rel["k"] == "local":
        c["j"], c["delta"] = rel["j"], R(rel["delta"])
    elif rel["k"] == "linear":
        c["y2"] = list(reversed(c["y"]))
    out.append(c)
    if cb["s"] == "PiecewiseConstant" and rel["k"] in ("affine", "linear", "weights"):   # the cubic spline: global, signed weights
        d = copy.deepcopy(c)
        d.update(strategy="CubicSpline", nonneg=False)
        out.append(d)
    return out


def random_cases(rng, count):
    out = []
    for _ in range(count):
        s = rng.choice(["PiecewiseConstant", "LinearFixed", "LinearAdaptive", "ExpFixed", "ExpAdaptive", "CubicSpline"])
        adaptive = s in ADAPTIVE
        xs, ys = lattice_series(rng, 2, 7, vals=tuple(range(-12, 13)), den=1 if adaptive else rng.choice([1, 4]))
        n = rng.randint(2, 12)
        c = {"fn": "rfa_rel", "strategy": s, "x": [R(v) for v in xs], "y": [R(v) for v in ys], "n": n,
             "a": rng.choice([-1, rng.randint(0, n)]), "alpha": R(Fraction(rng.randint(1, 16), 16)),
             "beta": R(rng.choice([0, Fraction(1, 4), Fraction(1, 2), 1])), "exp": R(rng.choice([1, 2, 3])),
             "smooth": rng.choice([1, 2]), "m": len(xs), "j": 0, "radius": 2 if adaptive else 1, "maps": [], "nonneg": s != "CubicSpline"}
        if rng.random() < 0.5:
            ef = rng.uniform(0.2, 4.0)
            c["exp_f"] = ef
        # (fixed strategies only: each half window, a / 2 <= n, still lies inside one interval.  For the ADAPTIVE strategies a window
        #  wider than the interval lets one side grow beyond an interval, and the pinned code then reaches three intervals back -
        #  the documentation calls the window "part of the interval", so a > n is outside the documented use there and not judged)
        wide = s in ("LinearFixed", "ExpFixed") and rng.random() < 0.3
        if wide:
            # a transition window WIDER than the interval (alpha in (1, 2] or an explicit a in n+1 .. 2n): the two halves overlap and
            # reach back into samples the previous interval has already written (seed C07j: border value read from the result array)
            xs, ys = lattice_series(rng, 4, 8, vals=tuple(range(-12, 13)), den=1 if adaptive else rng.choice([1, 4]))
            c.update(x=[R(v) for v in xs], y=[R(v) for v in ys], m=len(xs))
            if rng.random() < 0.5:
                c.update(a=-1, alpha=R(rng.choice([Fraction(5, 4), Fraction(3, 2), Fraction(2)])))
            else:
                c.update(a=rng.randint(n + 1, 2 * n))
        kind = rng.choice(["affine", "affine", "local", "linear", "weights"] + (["local"] * 3 if wide else []))
        if s == "CubicSpline" and kind == "local":
            kind = "affine"
        if adaptive and kind in ("linear", "weights"):
            kind = "local"
        c["rel"] = kind
        if kind == "affine":
            if adaptive:      # exactly representable maps only: power-of-two scales, integer shifts of integer-valued series
                ay = Fraction(rng.choice([-4, -2, -1, 1, 2, 4, 8]), rng.choice([1, 2]))
                by = Fraction(rng.randint(-20, 20))
            else:
                ay = Fraction(rng.choice([-1, 1]) * rng.randint(1, 12), rng.choice([1, 2, 4, 8]))
                by = Fraction(rng.randint(-80, 80), 8)
            cx = Fraction(rng.randint(1, 12), rng.choice([1, 2, 4, 8]))
            dx = Fraction(rng.randint(-80, 80), 8)
            if not adaptive and rng.random() < 0.25:
                # minutes / hours to seconds: generic (not power-of-two) time scales with larger oversampling factors
                cx = Fraction(rng.choice([60, 300, 3600, 900]))
                c["n"] = rng.choice([7, 13, 14, 26, 28, 21, 30])
                c["a"] = rng.choice([-1, rng.randint(0, c["n"])])
            c["maps"] = [R(ay), R(by), R(cx), R(dx)]
        elif kind == "local":
            c["j"] = rng.randrange(len(xs))
            c["delta"] = R(rng.choice([-5, -1, 1, 2, 7]))
        elif kind == "linear":
            c["y2"] = [R(Fraction(rng.randint(-12, 12))) for _ in ys]
        out.append(c)
    return out


def extreme_cases(rng, count):
    """Exactly representable maps of extreme magnitude (power-of-two scales, large integer shifts) on integer-valued series."""
    out = []
    for _ in range(count):
        s = rng.choice(["PiecewiseConstant", "LinearFixed", "LinearAdaptive", "ExpFixed", "ExpAdaptive", "CubicSpline"])
        xs, ys = lattice_series(rng, 3, 7, vals=tuple(range(-6, 7)), den=1)
        xs = [Fraction(i) + xs[0].numerator // xs[0].denominator for i in range(len(xs))] if rng.random() < 0.5 else [Fraction(int(v * 2)) for v in xs]
        n = rng.randint(2, 8)
        e = rng.choice([-30, -20, -10, 10, 20, 30])
        # shifts are chosen relative to the scale so that the mapped problem stays well conditioned in floating point
        # (|shift| <= 2^20 jumps for the values, <= 2^10 gaps for the time axis): the relation is then exact to ~1e-10
        ay = Fraction(2) ** e * rng.choice([-1, 1]) if rng.random() < 0.7 else Fraction(rng.choice([-4, -1, 1, 2]))
        by = ay * rng.choice([0, 2 ** 20, -(2 ** 20), 3 * 2 ** 16, 2 ** 10])
        cx = Fraction(2) ** rng.choice([-20, -8, 0, 8, 20])
        dx = cx * rng.choice([0, 2 ** 10, -(2 ** 8), 96])
        out.append({"fn": "rfa_rel", "rel": "affine_exact", "strategy": s, "x": [R(v) for v in xs], "y": [R(v) for v in ys], "n": n,
                    "a": rng.choice([-1, rng.randint(0, n)]), "alpha": R(rng.choice([1, Fraction(1, 2)])), "beta": R(rng.choice([0, Fraction(1, 2), 1])),
                    "exp": R(rng.choice([1, 2, 3])), "smooth": rng.choice([1, 2]), "m": len(xs), "j": 0, "radius": 1,
                    "maps": [R(ay), R(by), R(cx), R(dx)], "nonneg": True})
    # the time axis far from the origin (epoch seconds, 2^40): integer abscissae, power-of-two n and scale, so that every grid
    # point and every difference of grid points is exact in binary64 and the relation must hold to the last bit
    for _ in range(count // 3):
        s = rng.choice(["LinearFixed", "LinearAdaptive", "ExpFixed", "ExpAdaptive", "PiecewiseConstant"])
        xs, ys = lattice_series(rng, 3, 7, vals=tuple(range(-6, 7)), den=1)
        xs = [Fraction(i) for i in range(len(xs))] if rng.random() < 0.5 else [Fraction(int(v * 2)) for v in xs]
        n = rng.choice([2, 4, 8])
        out.append({"fn": "rfa_rel", "rel": "affine_exact", "strategy": s, "x": [R(v) for v in xs], "y": [R(v) for v in ys], "n": n,
                    "a": rng.choice([-1, rng.randint(0, n)]), "alpha": R(rng.choice([1, Fraction(1, 2)])), "beta": R(rng.choice([0, Fraction(1, 2), 1])),
                    "exp": R(rng.choice([1, 2, 3])), "smooth": rng.choice([1, 2]), "m": len(xs), "j": 0, "radius": 1,
                    "maps": [R(1), R(0), R(Fraction(2) ** rng.choice([-4, 0, 0, 4])), R(0)], "dx_big": [rng.choice([-1, 1]), rng.choice([31, 40])],
                    "nonneg": True})
    return out


def run():
    c = Check("C07")
    r = c.model("MC_RfaRel", "MC_RfaRel_%s.cfg" % c.tier, timeout=3400)
    cases = []
    for j in r.json_lines:
        cases += from_emission(j)
    lattice = len(cases)
    cases += random_cases(c.rng, 15000 if c.thorough else 2000)
    cases += extreme_cases(c.rng, 6000 if c.thorough else 800)
    if c.replay_path:
        ev = json.load(open(c.replay_path))["event"]
        cases = [{k: v for k, v in ev.items() if k not in ("runs", "outcome", "tags", "id")}]
    evs = c.run_cases(cases, execute)
    for e in evs:
        if e["m"] >= 3 and len(set(map(tuple, e["y"]))) > 1:
            c.count_nontrivial(json.dumps({k: v for k, v in e.items() if k not in ("runs", "outcome")}, sort_keys=True))
    if not c.replay_path:
        def neg(rel, mut, prefix):
            c.negative_from(evs, lambda e: e["rel"] == rel and e["outcome"] == "ok" and e["m"] >= 3 and len(e["runs"][0]["outy"]) > 4, mut, prefix)
        def bump(run, idx):
            f = run["outy"][idx]
            run["outy"][idx] = [f[0] if f[0] else 1, f[1] + 3, f[2]]
        neg("affine", lambda e: bump(e["runs"][1], 1), "C07.commute_values")
        neg("linear", lambda e: bump(e["runs"][2], 1), "C07.linear")
        neg("weights", lambda e: bump(e["runs"][0], 1), "C07.weights_sum")
        c.negative_from(evs, lambda e: e["rel"] == "local" and e["outcome"] == "ok" and e["m"] >= 5 and e["radius"] == 1 and e["j"] == 0
                        and len(e["runs"]) == 2 and len(e["runs"][1]["outy"]) > 4,
                        lambda e: bump(e["runs"][1], len(e["runs"][1]["outy"]) - 1), "C07.local")
    c.rule = ("lattice: every series x {10 (quick) / 34 (thorough) unit changes (ay,by,cx,dx)} x 7 strategy/parameter combinations x n x "
              "a in {2,n}; perturbation of every single average by {+1,-3}; y, reversed y and their sum; unit vectors - relations proved "
              "on the model exactly (MC_RfaRel) and every tuple of runs replayed on the real code (plus cubic-spline variants); "
              "harness-originated: seeded random series with generic dyadic (a,b,c,d) for non-adaptive strategies and power-of-two "
              "scales / integer shifts of integer series for adaptive ones, real exponents; and exactly representable maps of extreme "
              "magnitude (scales 2^-30..2^30, shifts up to 2^20) on integer series for all strategies, mapped back exactly before comparison. Relations are judged by TLC on the recorded "
              "values in 1e-5 fixed point. non-trivial = >= 3 points with >= 2 distinct values; distinct by full input")
    c.coverage_extra = {"lattice_cases_from_tlc": lattice, "harness_originated_cases": len(cases) - lattice}
    c.assumptions = ["TLC 1.8, CommunityModules Json/IOUtils", "relations judged at 1e-5 absolute (+ slack bounding the projection error)",
                     "locality radius: 1 interval (2 for adaptive strategies), none claimed for the cubic spline"]
    return c.finish(exhaustive=False)


main(run)
