"""C18 - every documented dataset is reachable by name and well-formed.

(A) the registry (documented names x what load_dataset(name) does with the loaders stubbed) is extracted from the
    working tree and handed to TLC: DatasetRegistry invariants (MC_Registry), and DatasetCache restricted to
    sequential healthy loads of all ordered pairs of remote datasets (MC_RegistryPairs: NoCrossTalk);
(B) every name (and '-'/'_' respelling, both unpack values) goes through the REAL load_dataset with a fake network;
(C) TLC (Trace_Registry.tla) judges the recorded calls: clauses C18.*.
A TLC counterexample on the registry becomes a VIOLATION only through a real call that fails its clause; if no
real call confirms it, the check stops with a machinery error."""
import copy
import hashlib
import json
import os
import shutil

import driver
from driver import Check, main
from vlib import MachineryError, NCPU
import cachelib
from cachelib import DESC_DIR, REAL_SHA, World, extract_registry, one_load, registry_module, variants_of

_ROOT = None
_COUNTER = [0]


def run_job(job):
    """A job is a list of loads that share one data home; returns their events."""
    _COUNTER[0] += 1
    home = os.path.join(_ROOT, "h%d-%d" % (os.getpid(), _COUNTER[0]))
    # every fifth data home lives on another file system than the system's temporary directory (when the machine has one):
    # staging anywhere but next to the cache slot cannot be renamed into place there
    import tempfile
    try:
        other_fs = os.path.isdir("/dev/shm") and os.access("/dev/shm", os.W_OK) and os.stat("/dev/shm").st_dev != os.stat(tempfile.gettempdir()).st_dev
    except OSError:
        other_fs = False
    if other_fs and _COUNTER[0] % 5 == 0:
        home = os.path.join("/dev/shm", "verif-c18-%d-%d" % (os.getpid(), _COUNTER[0]))
    fake_home = home + "-user"
    os.makedirs(home)
    os.makedirs(fake_home)
    try:
        evs = []
        for ld in job["loads"]:
            ev = one_load(home=home, fake_home=fake_home, **ld)
            ev["tags"] = {"job": job["tag"]}
            evs.append(ev)
        return evs
    except Exception as ex:  # noqa
        import traceback
        return [{"fn": "machinery", "error": "%s: %s" % (type(ex).__name__, ex), "tb": traceback.format_exc()}]
    finally:
        shutil.rmtree(home, ignore_errors=True)
        shutil.rmtree(fake_home, ignore_errors=True)


def sha_event(rng):
    got, want = [], []
    d = os.path.join(_ROOT, "sha")
    os.makedirs(d, exist_ok=True)
    for n in (0, 1, 63, 64, 8191, 8192, 8193, 20000, rng.randint(1, 70000)):
        b = bytes(rng.getrandbits(8) for _ in range(n))
        p = os.path.join(d, "f%d" % n)
        with open(p, "wb") as f:
            f.write(b)
        try:
            got.append(str(REAL_SHA(p)))
        except Exception as ex:  # noqa
            got.append("raised " + type(ex).__name__)
        want.append(hashlib.sha256(b).hexdigest())
    return {"fn": "sha", "got": got, "want": want}


def description_event():
    """Beyond the property: the four public *_dataset_description() functions return the text of the shipped tables (the
    files the documented names are extracted from)."""
    import glob
    import traffic_weaver.datasets as twd
    from cachelib import DESC_DIR
    got, want, names = [], [], []
    for p in sorted(glob.glob(os.path.join(DESC_DIR, "*.md"))):
        stem = os.path.splitext(os.path.basename(p))[0]
        fn = getattr(twd, "%s_dataset_description" % stem.replace("-", "_"), None)
        names.append(stem)
        want.append(hashlib.sha256(open(p, encoding="utf-8").read().encode()).hexdigest())
        try:
            got.append(hashlib.sha256(fn().encode()).hexdigest() if fn else "no such function")
        except Exception as ex:  # noqa
            got.append("raised " + type(ex).__name__)
    return {"fn": "desc", "tables": names, "got": got, "want": want}


# --------------------------------------------------------------------------------------------------------
def run():
    global WORLD, _ROOT
    c = Check("C18")
    rng = c.rng
    _ROOT = c.scratch.path("homes")
    os.makedirs(_ROOT, exist_ok=True)

    # ---- registry from the working tree ----------------------------------------------------------------
    registry = extract_registry()
    if len(registry) < 2:
        raise MachineryError("no documented names found under %s" % DESC_DIR)
    WORLD = cachelib.WORLD = World(registry)
    live = [r["name"] for r in registry if r["kind"] == "remote" and r["call"]["resolves"] and r["call"]["loader"] == "remote"]
    regfile = c.scratch.path("RegistryData.tla")
    with open(regfile, "w") as f:
        f.write(registry_module(registry, live))

    # ---- (A) TLC on the registry -------------------------------------------------------------------------
    jobs = [{"module": "MC_Registry", "modules": ["MC_Registry"], "cfg": "MC_Registry.cfg", "files": [regfile],
             "allow_violation": True, "workers": 1}]
    if len(live) >= 2:
        jobs.append({"module": "MC_RegistryPairs", "modules": ["MC_RegistryPairs"], "cfg": "MC_RegistryPairs.cfg",
                     "files": [regfile], "allow_violation": True, "extra": ["-continue"], "coverage": True,
                     "require_actions": ("Stat", "Mkdir", "DlBegin", "DlEnd", "Verify", "Parse", "DumpBegin", "DumpEnd", "DumpClose",
                                         "Rename", "Cleanup", "Return")})
    results = cachelib.run_models(c, jobs, parallel=2)
    for j, r in zip(jobs, results):
        if r.error or r.rc is None or r.rc < 0:
            raise MachineryError("%s: %s\n%s" % (j["module"], r.error, r.stdout[-2000:]))
    rep = next((x for x in results[0].json_lines if x.get("k") == "report"), None)
    if rep is None:
        raise MachineryError("MC_Registry printed no report\n" + results[0].stdout[-2000:])
    witnesses = {k: v for k, v in rep["witnesses"].items() if v and k != "counts"}
    tlc_violated = {v[2:] if v.startswith("I_") else v for v in results[0].violated}
    if bool(witnesses.keys() - {"FilesInjective"}) != bool(tlc_violated):
        raise MachineryError("MC_Registry: witnesses %s but TLC reported %s" % (sorted(witnesses), sorted(tlc_violated)))
    crosstalk = []
    if len(jobs) > 1:
        crosstalk = sorted({(x["first"], x["second"]) for x in results[1].json_lines if x.get("k") == "crosstalk"})
        bad = set(results[1].violated) - {"NoCrossTalk"}
        if bad or (bool(crosstalk) != ("NoCrossTalk" in results[1].violated)):
            raise MachineryError("MC_RegistryPairs: violated %s, %d crosstalk pairs" % (results[1].violated, len(crosstalk)))
        npairs = len(live) * (len(live) - 1)
    else:
        npairs = 0

    # ---- (B) real loads ----------------------------------------------------------------------------------
    work = []
    expect = []           # (description, predicate on event) for every TLC counterexample: must be confirmed

    def both(name, canon, doc, tag):
        # the first (downloading) request of a respelled name asks for the two columns, the cached one for the array: the flag
        # must be honoured on the download branch as well (seed C18i: unpacking only where the cache is read)
        first = tag == "variant"
        return {"tag": tag, "loads": [dict(name=name, canon=canon, doc=doc, unpack=first, mode="fresh"),
                                      dict(name=name, canon=canon, doc=doc, unpack=not first, mode="cached")] +
                ([dict(name=name, canon=canon, doc=doc, unpack=False, mode="after_edit"),
                  dict(name=name, canon=canon, doc=doc, unpack=True, mode="after_edit")] if doc == "bundled" else [])}

    names = [r["name"] for r in registry]
    for r in registry:
        work.append(both(r["name"], r["name"], r["kind"], "documented"))
        for v in r["variants"]:
            work.append(both(v["name"], r["name"], r["kind"], "variant"))
        if not r["variants"] and r["kind"] == "remote":
            work.append({"tag": "documented", "loads": [dict(name=r["name"], canon=r["name"], doc="remote", unpack=True, mode="fresh")]})
    unknown = ["no-such-dataset", "sandvine_nothing", "sandvine", "ams-ix", "mix_it_rome_daily", "ix-br-nowhere_daily",
               "load_dataset", "fetch_ams_ix_daily", "get_data_home", "AMS-IX_DAILY", " ams-ix_daily"]
    unknown = [u for u in unknown if u not in names and all(u not in variants_of(n) for n in names)]
    for u in unknown:
        for up in (False, True):
            work.append({"tag": "unknown", "loads": [dict(name=u, canon="", doc="unknown", unpack=up, mode="fresh")]})
    remote = [r["name"] for r in registry if r["kind"] == "remote"]
    # another dataset's genuine payload must be refused (distinct pinned checksums): the next dataset's (quick),
    # every other dataset's (thorough)
    for i, n in enumerate(live):
        for other in ([x for x in live if x != n] if c.thorough else [live[(i + 1) % len(live)]]):
            if other == n:
                continue
            work.append({"tag": "foreign", "loads": [dict(name=n, canon=n, doc="remote", unpack=False, mode="foreign",
                                                          foreign=other, prev=other)]})

    def after(a, b, tag):
        return {"tag": tag, "loads": [dict(name=a, canon=a, doc="remote", unpack=False, mode="fresh"),
                                      dict(name=b, canon=b, doc="remote", unpack=False, mode="after", prev=a)]}

    flagged = set(crosstalk)
    for a, b in witnesses.get("SlotInjective", []):
        flagged.update({(a, b), (b, a)})
    for a, b in sorted(flagged):
        work.append(after(a, b, "tlc-counterexample"))
        expect.append(("cache slot shared by %s and %s" % (a, b),
                       lambda e, a=a, b=b: e["mode"] == "after" and e["name"] == b and e["prev"] == a))
    for a, b in witnesses.get("ChecksumInjective", []):
        for x, y in ((a, b), (b, a)):
            work.append({"tag": "tlc-counterexample", "loads": [dict(name=x, canon=x, doc="remote", unpack=False,
                                                                     mode="foreign", foreign=y, prev=y)]})
        expect.append(("checksum shared by %s and %s" % (a, b),
                       lambda e, a=a, b=b: e["mode"] == "foreign" and {e["name"], e["prev"]} == {a, b}))
    for n in witnesses.get("AllResolve", []):
        expect.append(("%s does not resolve" % n, lambda e, n=n: e["mode"] == "fresh" and e["name"] == n))
    for key in ("UrlInjective", "RemoteFileInjective"):
        for a, b in witnesses.get(key, []):
            expect.append(("%s: %s / %s" % (key, a, b),
                           lambda e, a=a, b=b: e["mode"] == "fresh" and e["name"] in (a, b) and not e["unpack"]))
    for n, v in witnesses.get("VariantsAgree", []):
        expect.append(("spelling %s of %s resolves differently" % (v, n),
                       lambda e, n=n, v=v: e["name"] in (n, v) and e["canon"] == n))
    for n in witnesses.get("KindsAgree", []) + witnesses.get("RecordsComplete", []):
        expect.append(("%s: wrong loader kind / incomplete record" % n, lambda e, n=n: e["canon"] == n))
    # ordered pairs on the real loader: all of them (thorough) or a seeded sample (quick)
    pairs = [(a, b) for a in live for b in live if a != b and (a, b) not in flagged]
    if not c.thorough:
        pairs = rng.sample(pairs, min(len(pairs), 400))
    for a, b in pairs:
        work.append(after(a, b, "pair"))

    if c.replay_path:
        rp = json.load(open(c.replay_path))
        ev = rp["event"]
        if ev.get("fn") == "home":
            work = []
        elif any(cl.startswith("C18.distinct_") for cl in rp.get("failing_clauses", [])):
            # a clause that relates this load to the loads of all other documented names: replay all of those
            work = [j for j in work if j.get("tag") == "documented"]
        else:
            work = [ev["meta"]["job"]]
        expect = []

    if len(work) > 64:
        import multiprocessing as mp
        with mp.get_context("fork").Pool(NCPU) as pool:
            out = pool.map(run_job, work, chunksize=8)
    else:
        out = [run_job(j) for j in work]
    for j, evs in zip(work, out):
        for e in evs:
            if e.get("fn") == "machinery":
                raise MachineryError("executor failed: %s\n%s" % (e["error"], e.get("tb", "")))
            e["meta"] = {"job": j}
            c.events.append(e)
            if e["doc"] != "unknown":
                c.count_nontrivial((e["name"], e["unpack"], e["mode"], e.get("prev", "")))
    if not c.replay_path:
        c.events.append(sha_event(rng))
        c.events.append(description_event())
    # ---- where the cache lives: the whole state graph of DataHome, every transition replayed in a scratch HOME ----------
    home_stats = {}
    if c.replay_path:
        ev0 = json.load(open(c.replay_path))["event"]
        home_progs = [{"fn": "home", "envset": ev0["envset"], "acts": [st["act"] for st in ev0["steps"]], "envform": ev0.get("envform", "abs")}] if ev0.get("fn") == "home" else []
        if home_progs:
            c.events = []
    else:
        import graphcover
        rh = c.model("MC_DataHome", "MC_DataHome.cfg", emits_all=False, workers=1)
        edges = [j for j in rh.json_lines if "act" in j and "from" in j]
        progs, home_stats = graphcover.cover(edges, lambda st: not st["exists"] and not st["cached"], rng, extra_walks=400 if c.thorough else 60)
        if home_stats["reachable_states"] != rh.distinct or home_stats["edges"] < 8 * home_stats["states"]:
            raise MachineryError("DataHome graph incomplete: %s vs %d states" % (home_stats, rh.distinct))
        home_progs = [{"fn": "home", "envset": root["envset"], "acts": acts, "envform": ("abs", "tilde", "rel")[i % 3]}
                      for i, (root, acts) in enumerate(progs)]
    if home_progs:
        import fnexec
        hev = c.run_cases(home_progs, fnexec.execute)
        for e, k in zip(hev, home_progs):
            e["meta"] = {"job": k}
            e["neg"] = False
            c.count_nontrivial(("home", json.dumps(k, sort_keys=True)))
        home_stats["programs_replayed"] = len(home_progs)
        home_stats["calls_replayed"] = sum(len(k["acts"]) for k in home_progs)
        if not c.replay_path:
            c18_inst = lambda e: e.get("fn") == "home" and len(e["steps"]) == 1 and e["envset"] and e["steps"][0]["act"] == {"k": "fetch", "arg": "none"}
            c.negative_from(hev, c18_inst, lambda e: e["steps"][0].__setitem__("cached", ["default"]), "C18.data_home")
            c.negative_from(hev, lambda e: e.get("fn") == "home" and e["steps"] and e["steps"][-1]["act"]["k"] == "get",
                            lambda e: e["steps"][-1].__setitem__("ret", "other"), "impl.home_step.get")

    # ---- negative controls ---------------------------------------------------------------------------------
    if not c.replay_path:
        ok_remote = [e for e in c.events if e.get("doc") == "remote" and e.get("mode") == "fresh" and e["outcome"] == "ok"
                     and e["name"] == e["canon"] and not e["unpack"] and len(e["urls"]) == 1]
        if len(ok_remote) >= 2:
            n1 = copy.deepcopy(ok_remote[0])
            n1["urls"] = list(ok_remote[1]["urls"])
            c.add_negative(n1, "C18.distinct_url")
            n2 = copy.deepcopy(ok_remote[0])
            n2["ret"] = ["array", ok_remote[1]["canon"]]
            c.add_negative(n2, "C18.own_data")
        ok_b = [e for e in c.events if e.get("doc") == "bundled" and e["outcome"] == "ok" and len(e.get("x", [])) > 3]
        if ok_b:
            n3 = copy.deepcopy(ok_b[0])
            n3["y"][2][1] += 7
            c.add_negative(n3, "C18.bundled_values")
            n4 = copy.deepcopy(ok_b[0])
            n4["x"][2] = list(n4["x"][1])
            c.add_negative(n4, "C18.bundled_increasing")
        if not c.negs:
            e0 = copy.deepcopy(next(e for e in c.events if e.get("fn") == "load"))
            e0.update(doc="unknown", outcome="ok")
            c.add_negative(e0, "C18.unknown_raises")

    for e in c.negs:
        e["neg"] = True

    # ---- (C) TLC judges; every TLC counterexample on the registry must be confirmed by a real call -----------
    def judge(scratch, events, trace_module="Trace_Registry", workers=NCPU, **kw):
        verdicts, agg = cachelib.validate_independent(scratch, events, trace_module=trace_module, workers=workers)
        for what, pred in expect:
            hit = [e for e in events if e.get("fn") == "load" and pred(e)]
            if not any(any(cl.startswith("C18.") for cl in verdicts[e["id"]]) for e in hit):
                raise MachineryError("TLC counterexample on the registry not confirmed by the real loader: %s "
                                     "(%d matching real calls, none fails a C18 clause)" % (what, len(hit)))
        return verdicts, agg

    driver.validate_events = judge
    c.rule = ("a case = one real load_dataset call (name as spelled, unpack flag, state of the data home: fresh / cached "
              "/ after another dataset / foreign payload served); names = the documented names of the four description "
              "tables and their '-'/'_' respellings, plus unknown names; non-trivial = documented or respelled name; "
              "distinct by (name, unpack, mode, previous dataset)")
    c.coverage_extra = {"documented_names": len(registry),
                        "bundled": sum(1 for r in registry if r["kind"] == "bundled"),
                        "remote": len(remote), "remote_reaching_the_loader": len(live),
                        "ordered_pairs_explored_by_tlc": npairs, "ordered_pairs_replayed": len(pairs) + len(flagged),
                        "registry_invariants_violated": sorted(tlc_violated | set(witnesses) - {"FilesInjective"}),
                        "registry_witnesses": {k: v[:40] for k, v in witnesses.items()},
                        "crosstalk_pairs_from_tlc": [list(p) for p in crosstalk],
                        "traces_validated_against_impl": len(c.events), "data_home_state_graph": home_stats}
    c.assumptions = ["TLC 1.8 and CommunityModules Json/IOUtils",
                     "registry = documented names (markdown tables) x arguments captured from load_dataset with "
                     "load_csv_dataset_from_remote / load_csv_dataset_from_resources stubbed",
                     "fake network: url -> synthetic genuine payload; _sha256 replaced by a table (genuine payload of a URL "
                     "-> that URL's pinned checksum, anything else -> true SHA-256); _sha256 itself compared with hashlib",
                     "the real figshare files are never seen: that the pinned checksums match them is not checked"]
    samples = [{k: v for k, v in e.items() if k not in ("meta", "x", "y", "csvx", "csvy")}
               for e in (c.events[:1] + c.events[len(c.events) // 2:len(c.events) // 2 + 1] + c.events[-2:-1])]
    return c.finish(trace_module="Trace_Registry", samples=samples, exhaustive=bool(c.thorough))


main(run)
