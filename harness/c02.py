"""C02 - recreate + match preserves every original average (averaging round trip)."""
import copy
import json
from fractions import Fraction

from driver import Check, main
from fnexec import execute
from rfafam import R, lattice_series, params, ALL

DATASETS = ["sandvine-audio", "sandvine-cloud", "sandvine-file-sharing", "sandvine-fixed-social-media", "sandvine-gaming", "sandvine-marketplace",
            "sandvine-measurements", "sandvine-messaging", "sandvine-mobile-messaging", "sandvine-mobile-social-media", "sandvine-mobile-video",
            "sandvine-mobile-youtube", "sandvine-mobile-zoom", "sandvine-snapchat", "sandvine-social-networking", "sandvine-tiktok",
            "sandvine-video-streaming", "sandvine-vpn-and-security", "sandvine-web"]


def documented_bundled_names():
    import os
    import re
    from vlib import REPO
    p = os.path.join(REPO, "src", "traffic_weaver", "datasets", "data_description", "sandvine.md")
    names = re.findall(r"^\|\s*`?(sandvine[-_a-z0-9]+)`?\s*\|", open(p).read(), re.M)
    return sorted(set(names))


def from_emission(j):
    return {"fn": "pipeline", "strategy": j["s"], "x": [R(v) for v in j["x"]], "y": [R(v) for v in j["y"]], "n": j["n"], "a": j["a"],
            "alpha": R(1), "beta": j["beta"], "exp": j["exp"], "smooth": j["smooth"], "append": j["append"], "trule": j["trule"], "malpha": j["alpha"]}


def random_cases(rng, count):
    out = []
    for _ in range(count):
        xs, ys = lattice_series(rng, 2, rng.choice([6, 20, 60]), vals=tuple(range(-40, 41)), den=rng.choice([1, 8]))
        s = rng.choice(ALL)
        n = rng.randint(2, rng.choice([8, 64]))
        c = {"fn": "pipeline", "strategy": s, "x": [R(v) for v in xs], "y": [R(v) for v in ys], "n": n,
             "append": rng.choice(["none", "periodic", "last"]), "trule": rng.choice(["trapezoid", "rectangle"]),
             "container": rng.choice(["array", "list", "int", "series"])}
        c.update(params(rng, s, n, exact=False))
        if rng.random() < 0.6:
            c["malpha_f"] = rng.uniform(0.1, 1.0) if rng.random() < 0.7 else rng.uniform(1.0, 4.0)
        if rng.random() < 0.1:
            # almost evenly spaced abscissae (jitter of 2^-20 of the step): the interval means are also recorded relative to
            # their own average (an error of 1e-6 is invisible at the 1e-4 resolution of the absolute clause)
            t, jx = Fraction(rng.randint(-8, 8)), []
            for _ in range(len(xs)):
                jx.append(t)
                t += 1 + Fraction(rng.choice([-1, 0, 1, 2, 3]), 2 ** 20)
            jy = [v if v != 0 else Fraction(3, 2) for v in ys]
            c.update({"x": [R(v) for v in jx], "y": [R(v) for v in jy], "trule": "rectangle", "rel": True, "container": "array"})
        elif rng.random() < 0.12:       # wide dynamic range: large averages first, tiny ones afterwards (all positive, rectangle rule)
            m = len(ys)
            # (not dyadic: sums of dyadic values of this range are exact in binary64 and would hide an order-of-summation slip)
            big, small = Fraction(100000, 3), Fraction(1, 3000)
            wy = [(big if i < m // 2 else small) * rng.randint(1, 7) for i in range(m)]
            c.update({"y": [R(v) for v in wy], "trule": "rectangle", "wide": True, "container": "array"})
            c.pop("malpha_f", None)
        elif rng.random() < 0.2:        # the same series on a level far above its variation (exact translation of the values)
            c["yoff"] = [rng.choice([-1, 1]), rng.choice([17, 20])]
        out.append(c)
    return out


def dataset_cases(rng, names, per):
    out = []
    for name in names:
        for _ in range(per):
            s = rng.choice(ALL)
            n = rng.choice([2, 3, 5, 12, 30, 60])
            c = {"fn": "pipeline", "dataset": name, "stride": rng.choice([1, 1, 2, 3]), "strategy": s, "n": n,
                 "append": rng.choice(["none", "periodic", "last"]), "trule": rng.choice(["trapezoid", "rectangle"])}
            c.update(params(rng, s, n, exact=False))
            out.append(c)
    return out


def run():
    c = Check("C02")
    r = c.model("MC_Pipeline", "MC_Pipeline_%s.cfg" % c.tier, timeout=3400)
    cases = [from_emission(j) for j in r.json_lines]
    lattice = len(cases)
    cases += random_cases(c.rng, 12000 if c.thorough else 1500)
    names = documented_bundled_names() or DATASETS
    ds = dataset_cases(c.rng, names, 12 if c.thorough else 2)
    cases += ds
    if c.replay_path:
        ev = json.load(open(c.replay_path))["event"]
        cases = [ev["meta"]["case"]]
    evs = c.run_cases([dict(k, case=copy.deepcopy(k)) for k in cases], execute)
    for e in evs:
        e["tags"] = {"case": e.pop("case")}
        if e["m"] >= 3:
            c.count_nontrivial(json.dumps(e["tags"]["case"], sort_keys=True))
    # keep the replayable case out of the TLC trace but inside the replay file
    for e in evs:
        e["meta"] = e["tags"]
    if not c.replay_path:
        def neg(pred, mut, prefix):
            c.negative_from(evs, pred, mut, prefix)
        def bump(e):
            f = e["out"][1]
            e["out"][1] = [1, (f[1] if f[0] > 0 else 0) + 5000, f[2]]
        neg(lambda e: e["outcome"] == "ok" and e["m"] >= 3 and e["n"] >= 3, bump, "C02.interval_mean")
        neg(lambda e: e["outcome"] == "ok" and e["trule"] == "rectangle" and e["m"] >= 3,
            lambda e: e["avgxbits"][0].__setitem__(2, e["avgxbits"][0][2] ^ 1), "C02.average_abscissae")
    c.rule = ("lattice (MC_Pipeline): every series x {no append, append periodic, append last} x five computable strategies x n x a in {2,n} x "
              "both target rules (x match exponents) - P02 holds on the model exactly, every behaviour replayed through "
              "Weaver(x,y)[.append_one_sample].recreate_from_average(...).integral_match(...); harness-originated: seeded random series of "
              "2..60 points, all six strategies with real alpha/beta/exponent/smoothing, n up to 64, real match exponents, and every bundled "
              "dataset named in the shipped description (%d names). The reference averages are the inputs themselves (+ the documented "
              "appended sample). non-trivial = >= 3 reference points; distinct by full case" % len(names))
    c.coverage_extra = {"lattice_cases_from_tlc": lattice, "random_cases": len(cases) - lattice - len(ds), "dataset_cases": len(ds),
                        "bundled_datasets": len(names)}
    c.assumptions = ["TLC 1.8, CommunityModules Json/IOUtils",
                     "recorded values are multiplied by a power of ten (chosen per run so that magnitudes are in [10,100)) and projected to 1e-4: "
                     "means are judged at ~1e-5 relative precision", "abscissae are compared as IEEE-754 bit patterns"]
    return c.finish(exhaustive=False)


main(run)
