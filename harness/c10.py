"""C10 - nearest-sample search returns the defined neighbour for every query."""
import numpy as np

from driver import Check, main
from vlib import MachineryError, use_repo

use_repo()
import traffic_weaver.sorted_array_utils as sau  # noqa: E402

VARIANTS = [("lower", True, "direct"), ("lower", False, "direct"), ("higher", True, "direct"),
            ("higher", False, "direct"), ("closest", True, "direct"),
            ("lower", True, "dispatch"), ("lower", False, "dispatch"), ("higher", True, "dispatch"),
            ("higher", False, "dispatch"), ("closest", True, "dispatch"), ("closest", False, "dispatch"),
            ("nearest", True, "dispatch")]
DIRECT = {"lower": "find_closest_lower_equal_element_indices_to_values",
          "higher": "find_closest_higher_equal_element_indices_to_values",
          "closest": "find_closest_lower_or_higher_element_indices_to_values"}


def decode(case):
    enc = case["enc"]
    if enc["kind"] == "ulp":      # v = (2^52 + k) * 2^(e-52): integers k are an exact affine image of the floats
        f = lambda r: float((2 ** 52 + r[0])) * 2.0 ** (enc["e"] - 52)
    else:                         # small rationals with power-of-two denominators: exact floats
        f = lambda r: r[0] / r[1]
    x = [f(r) for r in case["x"]]
    q = [f(r) for r in case["q"]]
    if case.get("container") == "list":
        return x, q
    if case.get("container") in ("intx", "intxlist") and enc["kind"] == "rat" and all(r[1] == 1 for r in case["x"]):
        # the searched array integer-typed (counters, sample numbers), the queries fractional
        xi = [int(r[0]) for r in case["x"]]
        return (xi if case["container"] == "intxlist" else np.array(xi, dtype=np.int64)), np.array(q, dtype=float)
    return np.array(x, dtype=float), np.array(q, dtype=float)


def call(fn, *a, **kw):
    try:
        out = fn(*a, **kw)
    except Exception as ex:
        return type(ex).__name__, []
    try:
        lst = [int(v) for v in out]
        if any(float(v) != int(v) for v in out):
            return "badtype", []
        return "ok", lst
    except Exception:
        return "badtype", []


def execute(case):
    x, q = decode(case)
    calls = []
    for strategy, fill, via in VARIANTS:
        if via == "direct":
            fn = getattr(sau, DIRECT[strategy])
            oc, out = call(fn, x, q) if strategy == "closest" else call(fn, x, q, fill)
        else:
            oc, out = call(sau.find_closest_element_indices_to_values, x, q, strategy, fill)
        calls.append({"strategy": strategy, "fill": fill, "via": via, "outcome": oc, "out": out})
    ev = dict(case)
    ev["calls"] = calls
    return ev


def random_cases(rng, n):
    for i in range(n):
        m = rng.randint(1, 12)
        ks, k = [], rng.randint(0, 50)
        for _ in range(m):
            ks.append(k)
            k += rng.choice([1, 1, 2, 3, 7, 100, 5000])
        pool = []
        for k in ks:
            pool += [k - 1, k, k + 1]
        pool += [ks[0] - rng.randint(2, 1000), ks[-1] + rng.randint(2, 1000)]
        pool += [rng.randint(ks[0] - 3, ks[-1] + 3) for _ in range(4)]
        for a, b in zip(ks, ks[1:]):
            if (a + b) % 2 == 0:
                pool.append((a + b) // 2)      # exact tie between two neighbours
        qs = sorted(rng.choice(pool) for _ in range(rng.randint(1, 10)))
        kind = rng.choice(["ulp", "ulp", "dyadic"])
        if kind == "ulp":
            yield {"fn": "search", "x": [[k, 1] for k in ks], "q": [[k, 1] for k in qs],
                   "enc": {"kind": "ulp", "e": rng.randint(-30, 30)}, "container": rng.choice(["array", "list"])}
        else:
            from fractions import Fraction
            den = rng.choice([1, 2, 8, 1024])
            sh = rng.randint(-3000, 3000) if rng.random() < 0.5 else -rng.choice(ks)      # every other case contains an exact 0.0
            yield {"fn": "search", "x": [[fr.numerator, fr.denominator] for fr in (Fraction(k + sh, den) for k in ks)],
                   "q": [[fr.numerator, fr.denominator] for fr in (Fraction(k + sh, den) for k in qs)],
                   "enc": {"kind": "rat"}, "container": rng.choice(["array", "list"])}


def apalache_runs(c):
    """(A3) the integer version of the scans (spec/apalache/SearchInt.tla) checked symbolically by Apalache: arrays and queries
    are UNBOUNDED integers, only the lengths are fixed.  A violated AlgoCorrect is a fault of the specification (exit 2); a
    run that does not finish in time is recorded as such and decides nothing."""
    import os
    import re
    import shutil
    import subprocess
    import time
    from vlib import SPEC
    out = []
    if not shutil.which("apalache-mc"):
        return [{"status": "apalache-mc not installed"}]
    wd = c.scratch.path("apalache")
    os.makedirs(wd, exist_ok=True)
    shutil.copy(os.path.join(SPEC, "apalache", "SearchInt.tla"), wd)
    jobs = [("CInit32", "NeverDone", 14, True), ("CInit32", "AlgoCorrect", 14, False)]
    if c.thorough:
        jobs += [("CInit43", "AlgoCorrect", 18, False), ("CInit53", "AlgoCorrect", 20, False)]
    for cinit, inv, length, expect_error in jobs:
        t0 = time.time()
        try:
            p = subprocess.run(["apalache-mc", "check", "--cinit=" + cinit, "--inv=" + inv, "--length=%d" % length,
                                "--out-dir=" + os.path.join(wd, "out"), "SearchInt.tla"], cwd=wd, stdout=subprocess.PIPE,
                               stderr=subprocess.STDOUT, timeout=600, text=True, errors="replace")
            txt = p.stdout
        except subprocess.TimeoutExpired:
            out.append({"instance": cinit, "invariant": inv, "status": "timeout (decides nothing)"})
            continue
        ok = "EXITCODE: OK" in txt and "no error up to computation length" in txt
        err = "Checker has found an error" in txt
        if not ok and not err:
            out.append({"instance": cinit, "invariant": inv, "status": "did not run: " + " ".join(txt.split()[-12:])})
            continue
        if expect_error != err:
            raise MachineryError("Apalache %s %s: %s" % (cinit, inv, "Done is unreachable (vacuous)" if expect_error else
                                                         "the scans do not meet the definition:\n" + txt[-1500:]))
        out.append({"instance": cinit, "invariant": inv, "length": length, "wall_s": round(time.time() - t0, 1),
                    "status": "witness found (the scan terminates)" if err else "no counterexample over unbounded integers"})
    return out


def run():
    c = Check("C10")
    t = c.tier
    apalache = apalache_runs(c) if not c.replay_path else []
    # (A1) the scans, transcribed in PlusCal, equal the definition on the bounded instance
    c.model("MC_SearchAlgo", "MC_SearchAlgo_%s.cfg" % t)
    # (A2) lattice of inputs: lemmas of the definition + emission of every (array, queries) pair
    r = c.model("MC_Search", "MC_Search_%s.cfg" % t)
    cases = []
    for j in r.json_lines:
        from fractions import Fraction
        cases.append({"fn": "search", "x": [[v, 1] for v in j["x"]],
                      "q": [[fr.numerator, fr.denominator] for fr in (Fraction(v, 2) for v in j["q2"])],
                      "enc": {"kind": "rat"}, "container": ("array", "intx", "intxlist")[len(cases) % 3]})
    lattice = len(cases)
    cases += list(random_cases(c.rng, 20000 if c.thorough else 3000))
    if c.replay_path:
        import json
        cases = [{k: v for k, v in json.load(open(c.replay_path))["event"].items() if k != "calls"}]
    evs = c.run_cases(cases, execute)
    for e in evs:
        if len(e["x"]) >= 2 and len(e["q"]) >= 2:
            c.count_nontrivial((str(e["x"]), str(e["q"]), e["enc"]["kind"]))
    # negative control: one wrong index in one recorded result must be rejected
    c.negative_from(evs, lambda e: e["calls"][0]["outcome"] == "ok" and e["calls"][0]["out"],
                    lambda e: e["calls"][0]["out"].__setitem__(0, e["calls"][0]["out"][0] + 1), "C10.value")
    c.rule = ("cases = (strictly increasing array, sorted query list); each is replayed through the 3 scan functions x "
              "fill flag and through the dispatcher (12 calls per case); lattice cases are emitted by TLC "
              "(MC_Search, exhaustive), the others are seeded random float arrays built as base+k*ulp or dyadic "
              "rationals with queries equal to / 1 ulp beside / between / beyond elements; non-trivial = at least "
              "2 elements and 2 queries, distinct by (array, queries, encoding)")
    c.coverage_extra = {"lattice_cases_from_tlc": lattice, "random_float_cases": len(cases) - lattice,
                        "calls_per_case": len(VARIANTS), "apalache_symbolic_runs": apalache}
    c.assumptions = ["TLC 1.8 and CommunityModules Json/IOUtils", "Apalache 0.58 (symbolic run of the integer scans, additional to TLC)",
                     "floats base+k*ulp inside one binade are an exact affine image of the integers k given to TLC",
                     "harness projection of the returned index arrays to Python ints"]
    return c.finish(exhaustive=False)


main(run)
